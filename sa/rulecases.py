"""Case analysis of the nine rewrite rules: every path of can_apply_to x apply_to over the kind /
None / sign / identifier domain (E3), with the judgements J-value, J-total, J-pure, J-links,
J-linear, J-relevant, re-attachment and result-shape closure (DESIGN 'Judgements').

Results are plain dicts so that they can be computed in worker processes and cached by source digest.
"""
from __future__ import annotations

import hashlib
import itertools
import json
import math
import multiprocessing as mp
import os
import random
import time
from typing import Any, Dict, List, Optional, Tuple

from . import algebra as A
from .absint import (ALL_KINDS, BIN, LEAF, UN, AbsRaise, BoundExceeded, Ident, Interp, Node, Num, PathInfeasible,
                     PathResult, Rec, _MISSING, explore, Halt, HistoryDependence)
from .heapterm import HeapView, NeedKind, kind_assignments, SHORT
from .model import Program
from .report import AnalysisError, CACHE, VERIF
from .summaries import Summaries

RULE_OPTIONS = {
    "CommutativeSwapRule": [{"preferred": True}, {"preferred": False}],
    "DistributiveFactorOutRule": [{"constants": False}, {"constants": True}],
}

_G: Dict[str, Any] = {}


def _setup(repo: Optional[str] = None):
    if "prog" not in _G:
        _G["prog"] = Program(repo)
        _G["S"] = Summaries(_G["prog"])
    return _G["prog"], _G["S"]


def rule_body(prog: Program, rname: str, opts: dict):
    cinfo = prog.cls(rname)
    can_m = prog.find_method(rname, "can_apply_to")
    app_m = prog.find_method(rname, "apply_to")
    if can_m is None or app_m is None:
        raise AnalysisError(f"{rname}: can_apply_to/apply_to vanished")

    def body(it: Interp):
        it.retained_mode += 1
        rule = it.instantiate(cinfo, [], dict(opts))
        it.retained_mode -= 1
        it.rule_obj = rule
        node = it.new_summary(ALL_KINDS, "arg")
        it.arg = node
        it.events.append(("phase", "classify"))
        can = it.call_function(can_m, [rule, node], {})
        it.can_value = can
        it.can_ret_log = list(it.ret_log)
        it.events.append(("phase", "decided"))
        if not it.truth(can, "can_apply_to"):
            return ("no", None)
        it.events.append(("phase", "apply"))
        ch = it.call_function(app_m, [rule, node], {})
        it.events.append(("phase", "done"))
        return ("applied", ch)

    return body


# --------------------------------------------------------------------------- frontier / workers
def frontier(prog, body, config, depth: int) -> List[List[int]]:
    """All decision prefixes of length <= depth (complete partition of the path space)."""
    out: List[List[int]] = []
    prefix: List[int] = []
    n = 0
    while True:
        n += 1
        if n > 4000:
            raise AnalysisError("frontier budget exceeded")
        it = Interp(prog, prefix, config)
        it.halt_depth = depth
        try:
            body(it)
        except (AbsRaise, BoundExceeded, PathInfeasible, Halt, RecursionError, HistoryDependence):
            pass
        dec = [(c, k) for c, k, _ in it.decisions][:depth]
        out.append([c for c, _ in dec])
        while dec and dec[-1][0] + 1 >= dec[-1][1]:
            dec.pop()
        if not dec:
            break
        prefix = [c for c, _ in dec[:-1]] + [dec[-1][0] + 1]
    return out


def explore_under(prog, body, config, root: List[int], max_paths: int = 40000) -> List[PathResult]:
    results: List[PathResult] = []
    prefix = list(root)
    n = 0
    import time as _time
    t_end = min(_time.time() + float(config.get("root_time_budget", 300)), float(config.get("deadline", 1e18)))
    while True:
        n += 1
        if n > max_paths or _time.time() > t_end:
            # keep what was explored (a violation among these paths is still a violation); the caller records that the
            # cases under this root were not exhausted
            results.append(None)  # type: ignore
            break
        it = Interp(prog, prefix, config)
        try:
            v = body(it)
            results.append(PathResult(it, "return", v))
        except AbsRaise as r:
            results.append(PathResult(it, "raise", exc=r))
        except BoundExceeded as b:
            results.append(PathResult(it, "bound", note=str(b)))
        except HistoryDependence as h:
            results.append(PathResult(it, "history", note=str(h)))
        except PathInfeasible:
            pass
        except RecursionError:
            results.append(PathResult(it, "bound", note="python recursion"))
        dec = [(c, k) for c, k, _ in it.decisions]
        if len(dec) < len(root) or [c for c, _ in dec[:len(root)]] != list(root):
            # the path ended before leaving the root prefix: it is the only path under this root
            break
        while len(dec) > len(root) and dec[-1][0] + 1 >= dec[-1][1]:
            dec.pop()
        if len(dec) <= len(root):
            break
        prefix = [c for c, _ in dec[:-1]] + [dec[-1][0] + 1]
    return results


def _worker(task):
    rname, opts, root, cfg, repo = task
    prog, S = _setup(repo)
    config = dict(cfg)
    config["hooks"] = S.hooks()
    body = rule_body(prog, rname, opts)
    res = explore_under(prog, body, config, root)
    out = []
    for p in res:
        if p is None:
            out.append({"rule": rname, "opts": opts, "outcome": "budget", "cond": "",
                        "note": f"exploration budget exhausted under decision prefix {root} after {len(res) - 1} paths"})
            continue
        out.extend(judge_path(prog, S, rname, opts, p))
    return out


UPDEPTH = {"quick": 4, "thorough": 6}


def analyse_rules(repo: Optional[str], tier: str, rules: Optional[List[str]] = None,
                  use_cache: bool = True, extra_cfg: Optional[dict] = None) -> List[dict]:
    prog, S = _setup(repo)
    # equal_chain: the domain of input trees is W' - an equation is the root or the left operand of an equation (the parser
    # reads "a = b = c" as Equal(Equal(a, b), c))
    cfg = {"max_updepth": UPDEPTH[tier], "equal_chain": True}
    cfg.update(extra_cfg or {})
    digest = source_digest(prog, extra=json.dumps(cfg, sort_keys=True) + tier + _self_digest())
    cache = CACHE / f"rulecases-{digest}.json"
    if use_cache and cache.exists() and rules is None:
        try:
            return json.loads(cache.read_text())
        except Exception:
            pass
    names = rules or sorted(c.name for c in prog.rule_classes())
    import time as _time
    # the whole analysis has a wall-clock deadline: cases not reached by then are reported as not exhausted (undecided),
    # violations found among the explored paths are still violations
    tasks = []
    for rname in names:
        for opts in RULE_OPTIONS.get(rname, [{}]):
            config = dict(cfg)
            config["hooks"] = S.hooks()
            body = rule_body(prog, rname, opts)
            roots = frontier(prog, body, config, 5)
            for r in roots:
                tasks.append((rname, opts, r, cfg, str(prog.repo)))
    # (the deadline starts when the case exploration starts: computing the decision frontiers is not charged to it)
    cfg["deadline"] = _time.time() + (600 if tier == "quick" else 2400)
    # one rule's roots must not use up the time of the others: roots are interleaved across rules
    by_rule: Dict[str, list] = {}
    for t in tasks:
        by_rule.setdefault(t[0] + repr(sorted(t[1].items())), []).append(t)
    tasks = [t for grp in itertools.zip_longest(*by_rule.values()) for t in grp if t is not None]
    nproc = min(int(os.environ.get("VERIF_JOBS", "16")), os.cpu_count() or 1)
    if nproc > 1 and len(tasks) > 4:
        ctx = mp.get_context("fork")
        with ctx.Pool(nproc) as pool:
            chunks = pool.map(_worker, tasks, chunksize=1)
    else:
        chunks = [_worker(t) for t in tasks]
    recs = [r for ch in chunks for r in ch]
    if rules is None:
        try:
            cache.parent.mkdir(exist_ok=True)
            if str(prog.repo) == "/repo":
                for old in cache.parent.glob("rulecases-*.json"):
                    old.unlink()
            cache.write_text(json.dumps(recs))
        except Exception:
            pass
    return recs


def source_digest(prog: Program, extra: str = "") -> str:
    h = hashlib.sha256()
    for name in sorted(prog.modules):
        h.update(name.encode())
        h.update(prog.modules[name].source.encode())
    h.update(extra.encode())
    return h.hexdigest()[:20]


def _self_digest() -> str:
    h = hashlib.sha256()
    d = os.path.dirname(__file__)
    for fn in sorted(os.listdir(d)):
        if fn.endswith(".py"):
            with open(os.path.join(d, fn), "rb") as f:
                h.update(f.read())
    return h.hexdigest()[:12]


# --------------------------------------------------------------------------- judgements
def _phase_events(it: Interp, phase: str) -> List[tuple]:
    out = []
    cur = None
    for e in it.events:
        if e[0] == "phase":
            cur = e[1]
            continue
        if cur == phase:
            out.append(e)
    return out


def _is_new(it: Interp, cid: int) -> bool:
    c = it.cells[cid]
    return c.fresh or c.mirror is not None


def _val_repr(v) -> str:
    if isinstance(v, Num):
        return A.term_str(v.term)
    return repr(v)


def judge_path(prog: Program, S: Summaries, rname: str, opts: dict, p: PathResult) -> List[dict]:
    it = p.interp
    base: Dict[str, Any] = {
        "rule": rname, "opts": opts, "cond": p.cond, "n_decisions": len(p.decisions),
    }
    hv0 = HeapView(it, S.optable)
    arg = it.arg.cid if hasattr(it, "arg") else None
    base["arg_shape"] = hv0.shape(arg, "entry") if arg is not None else "?"
    parent, _ = hv0.get(arg, "parent", "entry") if arg is not None else (_MISSING, "")
    if isinstance(parent, Node):
        side = "left" if hv0.get(parent.cid, "left", "entry")[0] == Node(arg) else "right"
        base["ctx"] = f"{side} child of {hv0.shape(parent.cid, 'entry')}"
    elif parent is None:
        base["ctx"] = "root"
    else:
        base["ctx"] = "any position"
    # classification label: what get_type returned, if the rule has one
    label = None
    for fn, idx in getattr(it, "can_ret_log", []):
        if fn.endswith(".get_type"):
            label = idx
    base["type_return_index"] = label
    # ------------------------------------------------------------------ purity (classifier phase)
    impure = []
    for e in _phase_events(it, "classify"):
        if e[0] == "store" and not _is_new(it, e[1]):
            if e[3] is _MISSING or not _same_value(e[3], e[4]):
                impure.append({"kind": "store", "field": e[2], "site": e[5], "stack": list(e[6])[-3:],
                               "cell": hv0.shape(e[1], "entry")})
        elif e[0] == "all_changed" and not _is_new(it, e[1]):
            impure.append({"kind": "all_changed", "site": e[2]})
        elif e[0] == "recstore" and hasattr(it, "rule_obj") and e[6] == id(it.rule_obj):
            impure.append({"kind": "rule-state", "field": e[2], "site": e[5]})
    base["impure"] = impure
    if p.outcome == "bound":
        base["outcome"] = "bound"
        base["note"] = p.note
        return [base]
    if p.outcome == "history":
        phase = "classify"
        for e in it.events:
            if e[0] == "phase":
                phase = e[1]
        base["outcome"] = "history"
        base["phase"] = phase
        base["note"] = p.note
        return [base]
    if p.outcome == "raise":
        phase = "classify"
        for e in it.events:
            if e[0] == "phase":
                phase = e[1]
        base["outcome"] = "raise"
        base["phase"] = phase
        base["raise"] = {"exc": p.exc.exc, "site": p.exc.site, "detail": p.exc.detail[:200]}
        base["facts"] = _facts_text(it)
        return [base]
    tag, ch = p.value
    if tag == "no":
        base["outcome"] = "not-applicable"
        return [base]
    base["outcome"] = "applied"
    # ------------------------------------------------------------------ result object
    result = None
    if isinstance(ch, Rec):
        result = ch.fields.get("result", _MISSING)
    base["returns_change"] = isinstance(ch, Rec) and ch.cls.name == "ExpressionChangeRule"
    if not isinstance(result, Node):
        base["result_is_node"] = False
        base["result_repr"] = repr(result)
        return [base]
    base["result_is_node"] = True
    out = []
    try:
        for choice, rec in kind_assignments(it, S.optable, lambda hv: _judge_applied(prog, S, it, hv, arg, result.cid)):
            r = dict(base)
            r.update(rec)
            r["kind_choice"] = {str(k): SHORT(v) for k, v in choice.items()}
            out.append(r)
    except AnalysisError as e:
        r = dict(base)
        r["judge_error"] = str(e)
        out.append(r)
    return out


def _same_value(a, b) -> bool:
    if isinstance(a, Node) and isinstance(b, Node):
        return a.cid == b.cid
    if isinstance(a, Num) and isinstance(b, Num):
        return a.term == b.term
    if type(a) != type(b):
        return False
    try:
        return a == b
    except Exception:
        return False


def _facts_text(it: Interp) -> List[str]:
    out = []
    for key, allowed in it.num_facts.items():
        t = it.num_fact_terms.get(key)
        if t is None:
            continue
        out.append(f"sign({A.term_str(t)}) in {sorted(allowed)}")
    for k, v in it.atoms.items():
        out.append(f"{k}={v}")
    return out


def _fact_env(it: Interp):
    """Substitution from equality facts and a constraint predicate from the remaining sign facts."""
    subst: Dict[str, tuple] = dict(it.eq_subst)
    cons: List[Tuple[tuple, frozenset]] = []
    for key, allowed in it.num_facts.items():
        t = it.num_fact_terms.get(key)
        if t is None:
            continue
        if allowed == frozenset(["zero"]):
            if not A.normalize(t, subst):
                continue  # already implied by the substitution
            sol = A.solve_for_symbol(t, 0, subst)
            if sol is not None and sol[0] not in subst:
                subst[sol[0]] = sol[1]
                continue
        cons.append((t, allowed))

    def ok(env) -> bool:
        for t, allowed in cons:
            try:
                v = A.evaluate(A.apply_subst(t, subst), env)
            except A.Undefined:
                return False
            s = "neg" if v < -1e-12 else ("pos" if v > 1e-12 else "zero")
            if s not in allowed:
                return False
        return True

    return subst, ok, cons


def _sampler_for(cons):
    """Sampler that biases number symbols towards satisfying single-symbol sign facts."""
    want: Dict[tuple, frozenset] = {}
    for t, allowed in cons:
        if t[0] == "sym":
            want[t] = allowed

    def sampler(rnd: random.Random, syms, i):
        env = {}
        for s in syms:
            if s in want:
                al = want[s]
                opts = []
                if "neg" in al:
                    opts += [-1.0, -2.0, -3.0, -0.5, -4.0]
                if "pos" in al:
                    opts += [1.0, 2.0, 3.0, 0.5, 5.0]
                if "zero" in al:
                    opts += [0.0]
                env[s] = rnd.choice(opts)
            elif s[0] == "sym":
                env[s] = float(rnd.choice([1, 2, 3, 4, 5, -1, -2, -3, 0.5, 1.5, -0.5, 6, 7][: 7 + (i % 7)]))
            else:
                env[s] = float(rnd.choice([2, 3, 5, 7, 1.5, -2, -3, 0.5][: 4 + (i % 5)]))
        return env

    return sampler


def _judge_applied(prog: Program, S: Summaries, it: Interp, hv: HeapView, arg: int, res: int) -> dict:
    rec: Dict[str, Any] = {}
    bt, at = _region(it, hv, arg, res)
    rec["before_shape"] = hv.shape(bt, "entry")
    rec["after_shape"] = hv.shape(at, "cur")
    tb = hv.term(bt, "entry")
    ta = hv.term(at, "cur")
    rec["before_term"] = _tstr(tb)
    rec["after_term"] = _tstr(ta)
    subst, ok, cons = _fact_env(it)
    rec["facts"] = _facts_text(it)
    rec["value"] = _judge_value(tb, ta, subst, ok, cons, it)
    rec["links"] = _audit_links(it, hv, at)
    rec["attach"] = _audit_attach(it, hv, bt, at, arg)
    if res != arg and not any(e[0] == "clone_from_root" for e in it.events):
        # the change's result takes the place of the matched node: when that node was the root, the result is a root
        p0, _ = hv.get(arg, "parent", "entry")
        p1, _ = hv.get(res, "parent", "cur")
        if p0 is None and isinstance(p1, Node):
            rec["attach"] = rec["attach"] + [{"what": "the matched node was the root but the result has a parent (result.get_root() "
                                                      "is not the result: the discarded node is still above it)",
                                              "result": hv.shape(res, "cur"), "parent": hv.shape(p1.cid, "cur")}]
    rec["relevant"] = _audit_relevant(tb, ta)
    rec["closure"] = _audit_closure(it, hv, at)
    rec["context"] = _audit_context(it, hv, bt)
    rec["orig_untouched"] = _audit_original(it)
    rec["pairs_after"] = _printer_pairs(it, hv, at, "cur", only_new=True)
    try:
        rec["pairs_before"] = _printer_pairs(it, hv, bt, "entry", only_new=False)
    except Exception:  # noqa: BLE001 - only used to tell inherited pairs from created ones
        rec["pairs_before"] = None
    rec["result_new"] = _is_new(it, res)
    held = []
    ro = getattr(it, "rule_obj", None)
    if isinstance(ro, Rec):
        for k, v in ro.fields.items():
            if isinstance(v, Node) or (hasattr(v, "items") and any(isinstance(x, Node) for x in getattr(v, "items", []) if not isinstance(x, tuple))):
                held.append(k)
    rec["rule_holds_nodes"] = held
    return rec


def _region(it: Interp, hv: HeapView, arg: int, res: int) -> Tuple[int, int]:
    """Smallest pair (before-top, after-top) such that the rewrite is a local replacement of the subtree
    rooted at before-top by the subtree rooted at after-top under an otherwise unchanged parent."""
    bt = arg
    if any(e[0] == "clone_from_root" for e in it.events):
        return hv.top(arg, "entry"), hv.top(res, "cur")
    for _ in range(12):
        q, _v = hv.get(bt, "parent", "entry")
        if q is None or q is _MISSING:
            return bt, hv.top(res, "cur")
        qc = it.cells[q.cid]
        slot = None
        for s in ("left", "right"):
            ev = qc.entry.get(s, _MISSING)
            if isinstance(ev, Node) and ev.cid == bt:
                slot = s
        if slot is not None:
            other = "right" if slot == "left" else "left"
            r = qc.cur.get(slot, _MISSING)
            unchanged = True
            for f in (other, "parent"):
                ev = qc.entry.get(f, _MISSING)
                cv = qc.cur.get(f, ev)
                if ev is _MISSING:
                    if f in qc.cur:
                        unchanged = False
                elif not _same_value(ev, cv) and not (ev is None and cv is None):
                    unchanged = False
            if unchanged and isinstance(r, Node):
                rp, _v = hv.get(r.cid, "parent", "cur")
                inside = res in set(hv.walk(r.cid, "cur"))
                if isinstance(rp, Node) and rp.cid == q.cid and inside:
                    return bt, r.cid
            if unchanged and isinstance(r, Node) and r.cid == bt:
                # parent still points at the matched node: the result was not attached here
                return bt, hv.top(res, "cur")
        bt = q.cid
    return hv.top(arg, "entry"), hv.top(res, "cur")


def _tstr(t) -> str:
    if t[0] == "eq":
        return f"{A.term_str(t[1])} = {A.term_str(t[2])}"
    return A.term_str(t)


def _contains_eq(t) -> bool:
    if t[0] == "eq":
        return True
    if t[0] in ("lit", "sym", "atom"):
        return False
    if t[0] == "fn":
        return _contains_eq(t[2])
    return any(_contains_eq(s) for s in t[1:] if isinstance(s, tuple))


def _judge_value(tb, ta, subst, ok, cons, it: Interp) -> dict:
    sampler = _sampler_for(cons)
    if tb[0] == "eq" or ta[0] == "eq":
        if tb[0] != "eq" or ta[0] != "eq":
            return {"verdict": "differ", "equation": True,
                    "why": "an equation was replaced by a non-equation (or vice versa)"}
        if any(_contains_eq(x) for x in (tb[1], tb[2], ta[1], ta[2])):
            return _judge_chain(tb, ta, subst, ok)
        d1 = ("sub", tb[1], tb[2])
        d2 = ("sub", ta[1], ta[2])
        try:
            n1 = A.normalize(d1, subst)
            n2 = A.normalize(d2, subst)
        except Exception as e:  # pragma: no cover
            return {"verdict": "undecided", "equation": True, "why": f"normaliser: {e}"}
        if not A.nf_add(n1, n2, -1) or not A.nf_add(n1, n2, 1):
            return {"verdict": "equal", "equation": True, "unit": "+-1"}
        # unit multiple by a number symbol / literal
        syms = sorted(s for s in (A.symbols(d1) | A.symbols(d2)) if s[0] == "sym")
        for s in syms:
            sn = A.normalize(s, subst)
            for mode, lhs, rhs in (("d1 = d2*%s", n1, A.nf_mul(n2, sn)), ("d1*%s = d2", A.nf_mul(n1, sn), n2)):
                if not A.nf_add(lhs, rhs, -1) or not A.nf_add(lhs, rhs, 1):
                    nz = _known_nonzero(it, s)
                    if nz:
                        return {"verdict": "equal", "equation": True, "unit": A.term_str(s)}
                    return {"verdict": "differ", "equation": True,
                            "why": f"both sides are multiplied/divided by {A.term_str(s)}, which is not known to be "
                                   f"non-zero on this path",
                            "witness": {A.term_str(s): 0}}
        extra = set()
        for t, _al in cons:
            extra |= A.symbols(A.apply_subst(t, subst))
        w = _equation_witness(d1, d2, subst, ok, sampler, extra)
        if w is not None:
            return {"verdict": "differ", "equation": True, "why": "solution sets differ", "witness": w}
        return {"verdict": "undecided", "equation": True, "why": "no unit found and no witness"}
    if _contains_eq(tb) or _contains_eq(ta):
        return {"verdict": "undecided", "why": "equation below the root"}
    if ("atom", "nan") in A.symbols(ta):
        return {"verdict": "equal", "why": "folded a division by zero: the original is undefined there (non-finite, ND)"}
    try:
        same = A.equal_nf(tb, ta, subst)
    except Exception as e:  # pragma: no cover
        return {"verdict": "undecided", "why": f"normaliser: {e}"}
    if same:
        return {"verdict": "equal"}
    extra = set()
    for t, _al in cons:
        extra |= A.symbols(A.apply_subst(t, subst))
    status, w = A.differ_witness(tb, ta, constraints=ok, subst=subst, sampler=sampler, extra_syms=extra)
    if status == "differ":
        return {"verdict": "differ", "witness": w, "why": "values differ at the witness assignment"}
    return {"verdict": "undecided", "why": f"normal forms differ but sampling says {status}"}


def _chain_sides(t) -> Optional[List[tuple]]:
    """Sides of a chained equation (its equations are the top region of the tree), in order; None when an equation sits
    below an arithmetic operator."""
    if t[0] == "eq":
        l, r = _chain_sides(t[1]), _chain_sides(t[2])
        return None if l is None or r is None else l + r
    return None if _contains_eq(t) else [t]


def _judge_chain(tb, ta, subst, ok=None) -> dict:
    """a = b = c holds where all its sides are equal.  Decided here: the result has the same sides up to order, each with
    the same value (a rewrite inside one side, a swap of sides)."""
    sb, sa_ = _chain_sides(tb), _chain_sides(ta)
    if sb is None:
        return {"verdict": "undecided", "equation": True, "why": "the input has an equation below an arithmetic operator"}
    if sa_ is None:
        return {"verdict": "differ", "equation": True,
                "why": "the result applies an arithmetic operator to an equation: it has no value and no solution set, and "
                       "its text is not in the grammar"}
    if len(sb) != len(sa_):
        return {"verdict": "undecided", "equation": True, "why": f"chain of {len(sb)} sides became a chain of {len(sa_)}"}
    left = list(sa_)
    missing = None
    for x in sb:
        hit = None
        for i, y in enumerate(left):
            try:
                if x == y or A.equal_nf(x, y, subst):
                    hit = i
                    break
            except Exception:  # pragma: no cover
                continue
        if hit is None:
            missing = x
            break
        left.pop(hit)
    if missing is None:
        return {"verdict": "equal", "equation": True, "unit": "chain: same sides"}
    lin = _chain_linear(sb, sa_, subst, ok)
    if lin is not None:
        return lin
    return {"verdict": "undecided", "equation": True,
            "why": f"chained equation: no side of the result has the value of the side {_tstr(missing)}"}


def _chain_linear(sb, sa_, subst, ok) -> Optional[dict]:
    """Both chains as systems of linear equations (differences of adjacent sides) in independent unknowns - opaque
    subtrees, variables, constant symbols: the solution sets are equal iff each system's rows are rational combinations
    of the other's; otherwise a point of one that is not a point of the other is the witness.  None when a difference is
    not linear."""
    from fractions import Fraction

    def rows(sides):
        out = []
        for x, y in zip(sides, sides[1:]):
            out.append(A.normalize(("sub", x, y), subst))
        return out
    try:
        D, E = rows(sb), rows(sa_)
    except Exception:  # pragma: no cover
        return None
    coords: List[tuple] = []
    for nf in D + E:
        for m in nf:
            if m == ():
                continue
            if not (len(m) == 1 and m[0][0][0] in ("sym", "atom") and m[0][1] == A.ONE_EXP):
                return None
            if m not in coords:
                coords.append(m)
    coords.append(())

    def vec(nf):
        return [Fraction(nf.get(m, 0)) for m in coords]

    def nullspace(M):
        M = [r[:] for r in M]
        n = len(coords)
        piv = []
        r = 0
        for c in range(n):
            k = next((i for i in range(r, len(M)) if M[i][c] != 0), None)
            if k is None:
                continue
            M[r], M[k] = M[k], M[r]
            pv = M[r][c]
            M[r] = [x / pv for x in M[r]]
            for i in range(len(M)):
                if i != r and M[i][c] != 0:
                    f = M[i][c]
                    M[i] = [a - f * b for a, b in zip(M[i], M[r])]
            piv.append(c)
            r += 1
            if r == len(M):
                break
        free = [c for c in range(n) if c not in piv]
        basis = []
        for fc in free:
            v = [Fraction(0)] * n
            v[fc] = Fraction(1)
            for i, pc in enumerate(piv):
                v[pc] = -M[i][fc]
            basis.append(v)
        return basis

    def point_outside(M1, M2):
        """A point of {M1 v = 0, v[()] = 1} where some row of M2 is non-zero."""
        B = nullspace(M1)
        last = len(coords) - 1
        w = next((v for v in B if v[last] != 0), None)
        if w is None:
            return None     # the system is inconsistent (no solutions at all)
        w = [x / w[last] for x in w]
        cands = [w] + [[a + b for a, b in zip(w, v)] for v in B if v[last] == 0]
        for v in B:
            if v[last] != 0 and v is not w:
                cands.append([x / v[last] for x in v])
        for v in cands:
            if any(sum(a * b for a, b in zip(row, v)) != 0 for row in M2):
                return v
        return None
    MD, ME = [vec(d) for d in D], [vec(e) for e in E]
    last = len(coords) - 1
    if not any(v[last] != 0 for v in nullspace(MD)) or not any(v[last] != 0 for v in nullspace(ME)):
        return None     # a system without solutions: not judged here
    blocked = False
    for M1, M2, which in ((MD, ME, "before holds, after does not"), (ME, MD, "after holds, before does not")):
        v = point_outside(M1, M2)
        if v is None:
            continue
        env = {}
        for m, x in zip(coords[:-1], v[:-1]):
            env[m[0][0]] = float(x)
        try:
            if ok is not None and not ok(env):
                blocked = True
                continue
        except Exception:
            blocked = True
            continue
        w = {A.term_str(k): float(round(x, 9)) for k, x in env.items()}
        w["note"] = which
        return {"verdict": "differ", "equation": True, "why": "solution sets of the chained equation differ", "witness": w}
    if blocked:
        return None
    # every generator of each solution set satisfies the other system
    return {"verdict": "equal", "equation": True, "unit": "chain: equivalent linear systems"}


def _known_nonzero(it: Interp, s) -> bool:
    p = A.normalize(s)
    key = A.canon(p)
    neg = A.canon(A.nf_mul(A.nf_const(-1), p))
    if repr(neg) < repr(key):
        key = neg
    allowed = it.num_facts.get(key)
    return allowed is not None and "zero" not in allowed


def _equation_witness(d1, d2, subst, ok, sampler, extra_syms=None) -> Optional[dict]:
    """Find an assignment where exactly one of d1 == 0, d2 == 0 holds (both defined)."""
    rnd = random.Random(11)
    d1s = A.apply_subst(d1, subst) if subst else d1
    d2s = A.apply_subst(d2, subst) if subst else d2
    syms = set(A.symbols(d1s) | A.symbols(d2s))
    if not syms:
        return None
    solve_syms = sorted(syms)
    syms = sorted(syms | set(extra_syms or ()))
    for i in range(300):
        env = sampler(rnd, syms, i)
        if not ok(env):
            continue
        t = solve_syms[i % len(solve_syms)]
        for (f, g, which) in ((d2s, d1s, "after holds, before does not"), (d1s, d2s, "before holds, after does not")):
            try:
                e0 = dict(env); e0[t] = 0.0
                e1 = dict(env); e1[t] = 1.0
                e2 = dict(env); e2[t] = 2.0
                f0, f1, f2 = A.evaluate(f, e0), A.evaluate(f, e1), A.evaluate(f, e2)
            except A.Undefined:
                continue
            slope = f1 - f0
            if abs((f2 - f1) - slope) > 1e-9 or abs(slope) < 1e-12:
                continue
            root = -f0 / slope
            er = dict(env); er[t] = root
            if not ok(er):
                continue
            try:
                fv = A.evaluate(f, er)
                gv = A.evaluate(g, er)
            except A.Undefined:
                continue
            if abs(fv) < 1e-9 and abs(gv) > 1e-6:
                w = {A.term_str(k): round(v, 9) for k, v in er.items()}
                w["note"] = which
                return w
    return None


# --------------------------------------------------------------------------- structural audits
def _audit_links(it: Interp, hv: HeapView, at: int) -> List[dict]:
    problems: List[dict] = []
    seen: Dict[int, int] = {}
    stack = [(at, 0)]
    while stack:
        cid, depth = stack.pop()
        if depth > 60:
            problems.append({"what": "cycle", "cell": cid})
            break
        seen[cid] = seen.get(cid, 0) + 1
        if seen[cid] > 1:
            problems.append({"what": "node occurs twice in the result tree", "cell": hv.shape(cid, "cur")})
            continue
        cell = it.cells[cid]
        ks = hv.kinds(cid)
        if cell.retained:
            problems.append({"what": "a node that outlives the call (default argument / module or rule state) is linked "
                                     "into the result: every application shares the same node object",
                             "cell": hv.shape(cid, "cur"), "allocated_at": cell.alloc_site})
        vals = {}
        for s in ("left", "right"):
            v = cell.cur.get(s, _MISSING)
            if v is _MISSING and cell.mirror is None and s in cell.entry:
                v = cell.entry[s]
            vals[s] = v
            if isinstance(v, Node):
                pv, _ = hv.get(v.cid, "parent", "cur")
                if not (isinstance(pv, Node) and pv.cid == cid):
                    problems.append({"what": f"{s} child's parent pointer does not point back",
                                     "parent": hv.shape(cid, "cur"), "child": hv.shape(v.cid, "cur"),
                                     "child_parent": hv.shape(pv.cid, "cur") if isinstance(pv, Node) else repr(pv)})
                if hv.kinds(v.cid) <= {"EqualExpression"} and "EqualExpression" not in ks:
                    # evaluate() has no value for it and the text "(a = b) op c" is not in the grammar
                    problems.append({"what": "an equation is an operand of an arithmetic operator",
                                     "parent": hv.shape(cid, "cur"), "child": hv.shape(v.cid, "cur")})
                stack.append((v.cid, depth + 1))
        explicit = any(v is not _MISSING for v in vals.values())
        if explicit:
            if ks <= BIN:
                for s in ("left", "right"):
                    if vals[s] is None:
                        problems.append({"what": f"binary operator without {s} operand", "cell": hv.shape(cid, "cur")})
            elif ks <= UN:
                col, _ = hv.get(cid, "child_on_left", "cur")
                side, other = ("left", "right") if col is True else ("right", "left")
                if vals[side] is None:
                    problems.append({"what": "unary operator without operand", "cell": hv.shape(cid, "cur")})
                if isinstance(vals[other], Node):
                    problems.append({"what": "unary operator with two operands", "cell": hv.shape(cid, "cur")})
            elif ks <= LEAF:
                for s in ("left", "right"):
                    if isinstance(vals[s], Node):
                        problems.append({"what": "leaf with a child", "cell": hv.shape(cid, "cur")})
    return problems


def _audit_attach(it: Interp, hv: HeapView, bt: int, at: int, arg: int) -> List[dict]:
    problems: List[dict] = []
    if at == bt:
        return problems
    bp, _ = hv.get(bt, "parent", "entry")
    ap, _ = hv.get(at, "parent", "cur")
    if bp is _MISSING:
        problems.append({"what": "result is a different root than the matched tree but the matched node's parent "
                                 "was never consulted: when the node has a parent the result is not attached",
                         "before_top": hv.shape(bt, "entry"), "after_top": hv.shape(at, "cur")})
        return problems
    if bp is None:
        if ap is not None and ap is not _MISSING:
            problems.append({"what": "root of the result has a parent", "after_top": hv.shape(at, "cur")})
        return problems
    q = bp.cid
    slot = None
    for s in ("left", "right"):
        ev = it.cells[q].entry.get(s, _MISSING)
        if isinstance(ev, Node) and ev.cid == bt:
            slot = s
    if slot is None:
        problems.append({"what": "cannot locate the matched tree under its entry parent"})
        return problems
    cv, _ = hv.get(q, slot, "cur")
    if not (isinstance(cv, Node) and cv.cid == at):
        problems.append({"what": f"the parent's {slot} slot does not hold the result after the rewrite",
                         "parent": hv.shape(q, "cur"), "result": hv.shape(at, "cur")})
    if not (isinstance(ap, Node) and ap.cid == q):
        problems.append({"what": "the result's parent pointer is not the saved parent",
                         "result": hv.shape(at, "cur")})
    return problems


def _audit_relevant(tb, ta) -> List[dict]:
    def atoms(t):
        if t[0] == "eq":
            return atoms(t[1]) | atoms(t[2])
        return {s for s in A.symbols(t) if s[0] == "atom" and s[1] != "nan"}
    b, a = atoms(tb), atoms(ta)
    out = []
    if b - a:
        out.append({"what": "sub-expressions / variables dropped", "items": sorted(x[1] for x in b - a)})
    if a - b:
        out.append({"what": "sub-expressions / variables introduced", "items": sorted(x[1] for x in a - b)})
    return out


def _audit_closure(it: Interp, hv: HeapView, at: int) -> List[dict]:
    out = []
    for cid in hv.walk(at, "cur"):
        cell = it.cells[cid]
        if not _is_new(it, cid):
            continue
        ks = hv.kinds(cid)
        if ks <= {"ConstantExpression"}:
            v, _ = hv.get(cid, "value", "cur")
            if v is None or isinstance(v, (str, Node, Ident)) or isinstance(v, bool):
                out.append({"what": "constant payload is not a number", "value": repr(v)})
        if ks <= {"VariableExpression"}:
            v, _ = hv.get(cid, "identifier", "cur")
            if v is _MISSING and not cell.fresh:
                continue  # payload of a copied pre-existing variable: a name by W
            if v is None or v is _MISSING or isinstance(v, (Num, int, float, Node)):
                out.append({"what": "variable identifier is not a name", "value": repr(v)})
    return out


def _audit_context(it: Interp, hv: HeapView, bt: int) -> List[dict]:
    """Cells strictly above the matched top: only the slot that held it may change."""
    out = []
    cur = bt
    seen = set()
    while True:
        p, _ = hv.get(cur, "parent", "entry")
        if not isinstance(p, Node) or p.cid in seen:
            break
        seen.add(p.cid)
        pc = it.cells[p.cid]
        for f in ("left", "right", "parent"):
            ev = pc.entry.get(f, _MISSING)
            cv = pc.cur.get(f, ev)
            if ev is _MISSING:
                if f in pc.cur and not _is_new(it, p.cid):
                    pass
                continue
            if not _same_value(ev, cv) and not (ev is None and cv is None):
                if f in ("left", "right") and isinstance(ev, Node) and ev.cid == cur:
                    continue  # the rewritten slot
                out.append({"what": f"context node above the rewrite changed its .{f}",
                            "node": hv.shape(p.cid, "entry")})
        cur = p.cid
    return out


def _audit_original(it: Interp) -> List[dict]:
    out = []
    cloned = False
    for e in it.events:
        if e[0] == "clone_from_root":
            cloned = True
            continue
        if cloned and e[0] == "store" and not _is_new(it, e[1]) and e[2] in ("left", "right", "parent", "value", "identifier"):
            if e[3] is _MISSING or not _same_value(e[3], e[4]):
                out.append({"what": f"store to .{e[2]} of a node of the original tree after clone_from_root",
                            "site": e[5]})
    return out


def child_form(it: Interp, hv: HeapView, cid: int, view: str) -> str:
    """Render form of a child for the printer table (C04)."""
    ks = hv.kinds(cid)
    if len(ks) != 1:
        return "Any"
    k = next(iter(ks))
    if k == "ConstantExpression":
        v, _ = hv.get(cid, "value", view)
        t = it.to_term(v) if v is not _MISSING else None
        if t is not None:
            p = A.normalize(t)
            c = A.nf_is_const(p)
            if c is not None:
                return "NegConst" if c < 0 else "Const"
            key = A.canon(p)
            neg = A.canon(A.nf_mul(A.nf_const(-1), p))
            flip = repr(neg) < repr(key)
            allowed = it.num_facts.get(neg if flip else key)
            if allowed is not None:
                if flip:
                    allowed = frozenset({"neg": "pos", "pos": "neg", "zero": "zero"}[a] for a in allowed)
                if allowed <= {"neg"}:
                    return "NegConst"
                if "neg" not in allowed:
                    return "Const"
        return "Const?"
    if k == "MultiplyExpression":
        l, lv = hv.get(cid, "left", view)
        r, rv = hv.get(cid, "right", view)
        if isinstance(l, Node) and isinstance(r, Node):
            lk, rk = hv.kinds(l.cid), hv.kinds(r.cid)
            if lk <= {"ConstantExpression"}:
                if rk <= {"VariableExpression"}:
                    return "CompactMul"
                if rk <= {"PowerExpression"}:
                    rl, _ = hv.get(r.cid, "left", rv)
                    if isinstance(rl, Node) and hv.kinds(rl.cid) <= {"VariableExpression"}:
                        return "CompactMul"
                    if not isinstance(rl, Node):
                        return "Multiply?"
                    return "Multiply"
                if len(rk) > 1:
                    return "Multiply?"
            elif len(lk) > 1 and "ConstantExpression" in lk:
                return "Multiply?"
            return "Multiply"
        return "Multiply?"
    return SHORT(k)


def _printer_pairs(it: Interp, hv: HeapView, at: int, view: str, only_new: bool) -> List[list]:
    out = []
    # link from the context parent to the result root
    p, _ = hv.get(at, "parent", view)
    roots = []
    if isinstance(p, Node):
        roots.append(p.cid)
    roots.append(at)
    seen = set()
    for root in roots:
        for cid in ([root] if root != at else hv.walk(at, view)):
            if cid in seen:
                continue
            seen.add(cid)
            ks = hv.kinds(cid)
            if len(ks) != 1:
                continue
            for s in ("left", "right"):
                v, vw = hv.get(cid, s, view)
                if not isinstance(v, Node):
                    continue
                if only_new and not (_is_new(it, cid) or _is_new(it, v.cid) or _link_changed(it, cid, s)):
                    continue
                out.append([SHORT(next(iter(ks))), s, child_form(it, hv, v.cid, vw)])
    return out


def _link_changed(it: Interp, cid: int, s: str) -> bool:
    c = it.cells[cid]
    if s not in c.entry:
        return s in c.cur and c.mirror is None and not c.fresh
    return not _same_value(c.entry.get(s), c.cur.get(s, c.entry.get(s)))
