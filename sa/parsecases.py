"""Case analysis of ExpressionParser over symbolic token streams (E3) and validation against a reference parser
transcribed from the documented grammar (C03), the closed error contract (C10) and call-history scenarios (C10/C12).

A token's type is a finite-set symbol over the 12 real token types; the parser's own tests split it.  Every path of
`_parse` therefore stands for all token sequences whose types lie in the refined sets.
"""
from __future__ import annotations

import itertools
import multiprocessing as mp
import os
from typing import Any, Dict, List, Optional, Tuple

from . import algebra as A
from .absint import (AbsRaise, BoundExceeded, Cls, Dct, Interp, Lst, Node, Num, Opaque, PathInfeasible, PathResult,
                     Rec, SymChar, Unsupported, _MISSING, explore)
from .heapterm import HeapView
from .model import Program, const_fold
from .report import AnalysisError
from .rulecases import explore_under, frontier, source_digest, _self_digest
from .summaries import Summaries

REAL_TYPES = ["Constant", "Variable", "Plus", "Minus", "Multiply", "Divide", "Exponent", "Factorial", "OpenParen",
              "CloseParen", "Function", "Equal"]

_G: Dict[str, Any] = {}


def _setup(repo):
    if _G.get("repo") != repo:
        _G["repo"] = repo
        _G["prog"] = Program(repo)
        _G["S"] = Summaries(_G["prog"])
    return _G["prog"], _G["S"]


def token_types(prog: Program) -> Dict[str, int]:
    tt = prog.cls("TOKEN_TYPES")
    return {name: const_fold(prog, tt.module, val) for name, val in tt.class_attrs.items()}


class LazyTokenValue:
    """Token.value resolved from the token's (refined) type at the time it is read."""

    def __init__(self, idx: int, type_sym: SymChar):
        self.idx = idx
        self.type_sym = type_sym


def make_tokens(it: Interp, text_key: str, n: int, types: Dict[str, int], fn_names: List[str]) -> Lst:
    """Fresh token objects for `text_key`; the symbolic types are shared between calls for the same text."""
    memo = it.__dict__.setdefault("text_types", {})
    if text_key not in memo:
        memo[text_key] = [it.new_char(frozenset(types[t] for t in REAL_TYPES)) for _ in range(n)]
    tcls = it.prog.cls("Token")
    out = []
    for i, sym in enumerate(memo[text_key]):
        r = Rec(tcls)
        r.fields["type"] = sym
        r.fields["value"] = LazyTokenValue(i, sym)
        r.fields["__text__"] = (text_key, i)
        out.append(r)
    eof = Rec(tcls)
    eof.fields["type"] = types["EOF"]
    eof.fields["value"] = ""
    out.append(eof)
    return Lst(out)


def install_token_model(it: Interp, types: Dict[str, int], n: int, fn_names: List[str]) -> None:
    inv = {v: k for k, v in types.items()}

    def resolve_value(it2: Interp, v: LazyTokenValue):
        cur = it2.charsets[v.type_sym.cid]
        names = {inv.get(x, "?") for x in cur}
        if names == {"Function"}:
            return fn_names[0] if fn_names else "sgn"
        if names == {"Constant"}:
            return f"#{v.idx}"
        if names == {"Variable"}:
            return f"§{v.idx}"
        return Opaque(f"token{v.idx}.value")
    it.lazy_resolvers = getattr(it, "lazy_resolvers", {})
    it.lazy_resolvers[LazyTokenValue] = resolve_value

    def h_coerce(it2, info, args, kwargs):
        v = args[0]
        if isinstance(v, str) and v.lstrip("-").startswith("#") and v.lstrip("-")[1:].isdigit():
            body_ = v.lstrip("-")
            if it2.atom(f"malformed-number({body_})"):
                raise AbsRaise("ValueError", "mathy_core/tokenizer.py:coerce_to_number", "malformed number such as '1.2.3'")
            signs = len(v) - len(body_)
            if signs > 1:
                # float("--1") / int("--1") are malformed
                raise AbsRaise("ValueError", "mathy_core/tokenizer.py:coerce_to_number", f"malformed number {v!r}")
            t = ("sym", f"n{body_[1:]}")
            return Num(("neg", t) if signs else t)
        raise Unsupported(f"coerce_to_number({v!r})")
    it.hooks["mathy_core/tokenizer.py:coerce_to_number"] = h_coerce

    def h_tokenize(it2, info, args, kwargs):
        text = args[1] if len(args) > 1 else kwargs.get("buffer")
        if not isinstance(text, str):
            raise Unsupported(f"tokenize of {text!r}")
        it2.events.append(("tokenize", text))
        return make_tokens(it2, text, it2.token_counts.get(text, n), types, fn_names)
    it.hooks["Tokenizer.tokenize"] = h_tokenize


# --------------------------------------------------------------------------- reference parser (documented grammar)
class Reject(Exception):
    pass


class RefParser:
    """Recursive descent transcribed from the grammar in ExpressionParser's docstring (iteration = left
    association), plus 'factorial of a literal' from the property statement."""

    FIRST_FACTOR = ("Variable", "Function", "OpenParen")

    def __init__(self, toks: List[Tuple[str, int]]):
        self.toks = list(toks) + [("EOF", -1)]
        self.i = 0

    @property
    def cur(self) -> str:
        return self.toks[self.i][0]

    def eat(self, t: str) -> int:
        if self.cur != t:
            raise Reject(f"expected {t}, got {self.cur}")
        idx = self.toks[self.i][1]
        self.i += 1
        return idx

    def parse(self):
        if self.cur == "EOF":
            raise Reject("empty")
        e = self.equal()
        if self.cur != "EOF":
            raise Reject("trailing tokens")
        return e

    def equal(self):
        e = self.add()
        while self.cur == "Equal":
            self.eat("Equal")
            e = ("eq", e, self.add())
        return e

    def add(self):
        e = self.mult()
        while self.cur in ("Plus", "Minus"):
            op = "add" if self.cur == "Plus" else "sub"
            self.i += 1
            e = (op, e, self.mult())
        return e

    def mult(self):
        e = self.exp()
        while self.cur in ("Multiply", "Divide"):
            op = "mul" if self.cur == "Multiply" else "div"
            self.i += 1
            e = (op, e, self.exp())
        return e

    def exp(self):
        e = self.unary()
        if self.cur == "Exponent":
            self.i += 1
            e = ("pow", e, self.unary())
        return e

    def unary(self):
        neg = False
        if self.cur == "Minus":
            self.i += 1
            neg = True
        if self.cur == "Constant":
            idx = self.eat("Constant")
            e: tuple = ("sym", f"n{idx}")
            if neg:
                e = ("neg", e)
                neg = False
            if self.cur == "Factorial":
                self.i += 1
                e = ("fn", "factorial", e)
            elif self.cur in self.FIRST_FACTOR:
                e = ("mul", e, self.factors())
        elif self.cur in self.FIRST_FACTOR:
            e = self.factors()
        else:
            raise Reject(f"unexpected {self.cur}")
        if neg:
            e = ("neg", e)
        return e

    def factors(self):
        fs = []
        while self.cur in self.FIRST_FACTOR:
            fs.append(self.factor())
        if not fs:
            raise Reject("no factors")
        if self.cur == "Exponent":
            self.i += 1
            fs[-1] = ("pow", fs[-1], self.unary())
        e = fs[0]
        for f in fs[1:]:
            e = ("mul", e, f)
        return e

    def factor(self):
        if self.cur == "Variable":
            idx = self.eat("Variable")
            return ("atom", f"var:§{idx}")
        if self.cur == "Function":
            self.eat("Function")
            self.eat("OpenParen")
            e = self.add()
            self.eat("CloseParen")
            return ("fn", "sgn", e)
        self.eat("OpenParen")
        e = self.add()
        self.eat("CloseParen")
        return e


def reference(toks: List[Tuple[str, int]]):
    try:
        return "ok", RefParser(toks).parse()
    except Reject as r:
        return "reject", str(r)


def terms_equal(a, b) -> Optional[bool]:
    if (a[0] == "eq") != (b[0] == "eq"):
        return False
    if a[0] == "eq":
        x = terms_equal(a[1], b[1])
        y = terms_equal(a[2], b[2])
        if x is False or y is False:
            return False
        return True if (x and y) else None
    try:
        if A.equal_nf(a, b):
            return True
    except Exception:
        return None
    status, _ = A.differ_witness(a, b)
    if status == "differ":
        return False
    if status == "unknown" and _domains_differ(a, b):
        return False
    if status == "same" and (_equal_by_sign_cases(a, b) or _same_sign_arguments(a, b)):
        return True
    return None


def _same_sign_arguments(a, b) -> bool:
    """sgn(u) against sgn(v): equal wherever both are defined when u / v is a single monomial with a positive
    coefficient and even integer exponents throughout (a positive square), e.g. u = a / (b / c), v = (a / b) / c."""
    if not (isinstance(a, tuple) and isinstance(b, tuple) and a[:2] == ("fn", "sgn") and b[:2] == ("fn", "sgn")):
        return False
    try:
        q = A.normalize(("div", a[2], b[2]))
    except Exception:
        return False
    if len(q) != 1:
        return False
    (mono, coeff), = q.items()
    if coeff <= 0:
        return False
    for base, exp in mono:
        e = A.nf_is_const(A.uncanon(exp))
        if e is None or e.denominator != 1 or int(e) % 2 != 0:
            return False
    return True


def _sgn_subterms(t, out):
    if isinstance(t, tuple):
        if t[0] == "fn" and t[1] == "sgn":
            if t not in out:
                out.append(t)
        for x in t[1:]:
            if isinstance(x, tuple):
                _sgn_subterms(x, out)
    return out


def _subst_term(t, old, new):
    if t == old:
        return new
    if isinstance(t, tuple) and t[0] not in ("lit", "sym", "atom"):
        return (t[0],) + tuple(_subst_term(x, old, new) if isinstance(x, tuple) else x for x in t[1:])
    return t


def _equal_by_sign_cases(a, b) -> bool:
    """The normal form does not relate sgn(t) to itself under division (1 / sgn(t) == sgn(t) where defined).  A three-way
    sign function takes only the values -1, 0, 1: the two terms are equal wherever both are defined iff they are equal
    under every substitution of those values for their sgn sub-terms - a case in which a side is undefined at every sample
    point (division by the zero sign) constrains nothing."""
    import itertools
    import random
    subs = _sgn_subterms(a, _sgn_subterms(b, []))
    if not subs or len(subs) > 3:
        return False
    rnd = random.Random(5)
    for combo in itertools.product((-1, 0, 1), repeat=len(subs)):
        ta, tb = a, b
        for st, v in zip(subs, combo):
            ta, tb = _subst_term(ta, st, A.lit(v)), _subst_term(tb, st, A.lit(v))
        syms = sorted(A.symbols(ta) | A.symbols(tb))
        defined = False
        for _ in range(24):
            env = {s_: float(rnd.choice([1, 2, 3, 5, -2, -3, 0.5])) for s_ in syms}
            try:
                A.evaluate(ta, env)
                A.evaluate(tb, env)
                defined = True
                break
            except A.Undefined:
                continue
        if not defined:
            continue
        try:
            if not A.equal_nf(ta, tb):
                return False
        except Exception:
            return False
    return True


def _domains_differ(a, b) -> bool:
    """One term is defined at a dozen sample points at which the other never is (e.g. the factorial of a negative literal):
    the two do not 'evaluate identically wherever the tree does'."""
    import random
    rnd = random.Random(11)
    syms = sorted(A.symbols(a) | A.symbols(b))
    only_a = only_b = both = 0
    for i in range(60):
        pool = ([1, 2, 3, 4, 5], [-3, -2, -1, 1, 2, 3], [0.5, 1.5, 2.5, -0.5, 2])[i % 3]
        env = {s_: float(rnd.choice(pool)) for s_ in syms}
        da = db = True
        try:
            A.evaluate(a, env)
        except A.Undefined:
            da = False
        try:
            A.evaluate(b, env)
        except A.Undefined:
            db = False
        both += da and db
        only_a += da and not db
        only_b += db and not da
    return both == 0 and max(only_a, only_b) >= 12


def surface(toks: List[Tuple[str, int]]) -> str:
    m = {"Plus": "+", "Minus": "-", "Multiply": "*", "Divide": "/", "Exponent": "^", "Factorial": "!", "OpenParen": "(",
         "CloseParen": ")", "Equal": "=", "Function": "sgn"}
    out = []
    letters = "xyzabcd"
    for t, i in toks:
        if t == "Constant":
            out.append(str(2 + i))
        elif t == "Variable":
            out.append(letters[i % len(letters)])
        else:
            out.append(m[t])
    s = ""
    for i, piece in enumerate(out):
        if s and s[-1].isdigit() and piece[0].isdigit():
            s += " "
        s += piece
    return s


# --------------------------------------------------------------------------- single parse over symbolic tokens
def parse_body(prog: Program, n: int):
    types = token_types(prog)
    pcls = prog.cls("ExpressionParser")
    m_parse = prog.func("parser", "ExpressionParser.parse")

    def body(it: Interp):
        it.token_counts = {}
        install_token_model(it, types, n, ["sgn"])
        parser = it.instantiate(pcls, [], {})
        it.parser = parser
        return it.call_function(m_parse, [parser, "T"], {})
    return body


def _lazy_patch():
    """Teach the interpreter to resolve LazyTokenValue on attribute read of records."""
    from . import absint
    if getattr(absint.Interp, "_lazy_patched", False):
        return
    orig = absint.Interp.getattr_

    def getattr_(self, obj, attr, default=absint._MISSING, probe=False):
        v = orig(self, obj, attr, default, probe)
        res = getattr(self, "lazy_resolvers", None)
        if res and type(v) in res:
            return res[type(v)](self, v)
        return v
    absint.Interp.getattr_ = getattr_
    absint.Interp._lazy_patched = True


_lazy_patch()


def judge_parse_path(prog: Program, S: Summaries, p: PathResult, n: int) -> List[dict]:
    it = p.interp
    types = token_types(prog)
    inv = {v: k for k, v in types.items()}
    syms = it.__dict__.get("text_types", {}).get("T", [])
    sets = [sorted(inv[x] for x in it.charsets[s.cid]) for s in syms]
    rec: Dict[str, Any] = {"n": n, "cond": p.cond[-400:], "type_sets": sets}
    if p.outcome == "bound":
        rec["outcome"] = "bound"
        rec["note"] = p.note
        return [rec]
    if p.outcome == "raise":
        rec["outcome"] = "raise"
        rec["exc"] = p.exc.exc
        rec["site"] = p.exc.site
        rec["detail"] = p.exc.detail[:200]
        rec["contract_ok"] = exc_in_contract(prog, p.exc.exc)
    else:
        rec["outcome"] = "return"
        v = p.value
        if isinstance(v, Node):
            hv = HeapView(it, S.optable)
            try:
                rec["term"] = hv.term(v.cid, "cur")
                rec["shape"] = hv.shape(v.cid, "cur")
                from .rulecases import _audit_links
                rec["links"] = _audit_links(it, hv, v.cid)
                pv, _ = hv.get(v.cid, "parent", "cur")
                if pv is not None and pv is not _MISSING:
                    rec["links"].append({"what": "root of the parsed tree has a parent"})
            except Exception as e:
                rec["term_error"] = f"{type(e).__name__}: {e}"
        else:
            rec["non_node_result"] = repr(v)
    # instantiate the remaining type choices and consult the reference parser
    out = []
    combos = list(itertools.islice(itertools.product(*sets), 300)) if sets else [()]
    malformed = any(k.startswith("malformed-number") and val for k, val in it.atoms.items())
    for combo in combos:
        toks = [(t, i) for i, t in enumerate(combo)]
        r = dict(rec)
        r["tokens"] = list(combo)
        r["surface"] = surface(toks)
        status, ref = reference(toks)
        r["ref_status"] = status
        if malformed:
            r["malformed_number"] = True
        if status == "ok":
            r["ref_term"] = ref
        if "term" in r and status == "ok":
            eq = terms_equal(_to_tuple(r["term"]), ref)
            r["value_equal"] = eq
        if "term" in r:
            r["term_str"] = _tstr(r["term"])
            r["term"] = None
        if "ref_term" in r:
            r["ref_term_str"] = _tstr(r["ref_term"])
            r["ref_term"] = None
        out.append(r)
    return out


def _tstr(t) -> str:
    if t[0] == "eq":
        return f"{_tstr(t[1])} = {_tstr(t[2])}"
    return A.term_str(t)


def _to_tuple(t):
    return t


def exc_in_contract(prog: Program, name: str) -> bool:
    if name == "ValueError":
        return True
    if name in prog.classes:
        return prog.is_subclass(name, "ParserException") or _derives_from_value_error(prog, name)
    return False


def _derives_from_value_error(prog: Program, name: str) -> bool:
    c = prog.classes.get(name)
    seen = set()
    while c is not None and c.name not in seen:
        seen.add(c.name)
        if "ValueError" in c.base_names:
            return True
        c = c.bases[0] if c.bases else None
    return False


def _worker(task):
    repo, n, root = task
    prog, S = _setup(repo)
    body = parse_body(prog, n)
    cfg = {"max_updepth": 0, "hooks": S.hooks(), "max_steps": 40000, "max_inline": 80}
    res = explore_under(prog, body, cfg, root, max_paths=200000)
    if any(p is None for p in res):
        raise AnalysisError("path budget exceeded")
    out = []
    for p in res:
        out.extend(judge_parse_path(prog, S, p, n))
    return out


def analyse_parser(repo: str, max_tokens: int, use_cache: bool = True) -> List[dict]:
    import json
    from .report import CACHE, VERIF
    prog, S = _setup(repo)
    digest = source_digest(prog, extra=f"parse{max_tokens}" + _self_digest())
    cache = CACHE / f"parsecases-{digest}.json"
    if use_cache and cache.exists():
        try:
            return json.loads(cache.read_text())
        except Exception:
            pass
    tasks = []
    for n in range(0, max_tokens + 1):
        body = parse_body(prog, n)
        cfg = {"max_updepth": 0, "hooks": S.hooks(), "max_steps": 40000, "max_inline": 80}
        roots = frontier(prog, body, cfg, 6) if n >= 3 else [[]]
        for r in roots:
            tasks.append((str(prog.repo), n, r))
    nproc = min(int(os.environ.get("VERIF_JOBS", "16")), os.cpu_count() or 1)
    if nproc > 1 and len(tasks) > 4:
        ctx = mp.get_context("fork")
        with ctx.Pool(nproc) as pool:
            chunks = pool.map(_worker, tasks, chunksize=1)
    else:
        chunks = [_worker(t) for t in tasks]
    recs = [r for ch in chunks for r in ch]
    try:
        cache.parent.mkdir(exist_ok=True)
        if str(prog.repo) == "/repo":
            for old in cache.parent.glob("parsecases-*.json"):
                old.unlink()
        cache.write_text(json.dumps(recs))
    except Exception:
        pass
    return recs


# --------------------------------------------------------------------------- call-history scenarios (C10.R4 / C12)
SCENARIOS = {
    "parse;parse": [("parse", "T"), ("parse", "T")],
    "tokenize;parse": [("tokenize", "T"), ("parse", "T")],
    "parse;tokenize": [("parse", "T"), ("tokenize", "T")],
    "tokenize;consume;tokenize": [("tokenize", "T"), ("consume",), ("tokenize", "T")],
    "tokenize;consume;parse": [("tokenize", "T"), ("consume",), ("parse", "T")],
    "parse;clear;parse": [("parse", "T"), ("clear",), ("parse", "T")],
    "parse(other);parse": [("parse", "U"), ("parse", "T")],
    "parse(ws-variant);parse": [("parse", "T T"), ("parse", "TT")],
    "tokenize(ws-variant);tokenize": [("tokenize", " TT"), ("tokenize", "TT")],
    "parse;parse;parse": [("parse", "T"), ("parse", "T"), ("parse", "T")],
}


def _describe(it: Interp, S: Summaries, kind: str, outcome) -> Any:
    tag, v = outcome
    if tag == "raise":
        return ("raise", v.exc)
    if kind == "parse":
        if isinstance(v, Node):
            hv = HeapView(it, S.optable)
            try:
                return ("tree", hv.shape(v.cid, "cur"), _tstr(hv.term(v.cid, "cur")))
            except Exception as e:
                return ("tree?", str(e))
        return ("value", repr(v))
    if kind == "tokenize":
        if isinstance(v, Lst):
            out = []
            for t in v.items:
                if isinstance(t, Rec):
                    ty = t.fields.get("type")
                    val = t.fields.get("value")
                    vd = ("text-of-token", val.idx) if isinstance(val, LazyTokenValue) else ("value", repr(val))
                    out.append((("sym", ty.cid) if isinstance(ty, SymChar) else ("lit", ty)) + vd)
                else:
                    out.append(("?", repr(t)))
            return ("tokens", tuple(out))
        return ("value", repr(v))
    return ("none",)


def _field_repr(v) -> str:
    if isinstance(v, Lst):
        return "[" + ", ".join(_field_repr(x) for x in v.items) + "]"
    if isinstance(v, Rec):
        if v.cls.name == "Token":
            t = v.fields.get("type")
            return f"Token({'sym' + str(t.cid) if isinstance(t, SymChar) else t})"
        return f"<{v.cls.name}>"
    if isinstance(v, Node):
        return "<node>"
    if isinstance(v, Dct):
        return "{" + ", ".join(sorted(repr(k) for k in v.items)) + "}"
    return repr(v)


def scenario_body(prog: Program, name: str, n: int):
    types = token_types(prog)
    pcls = prog.cls("ExpressionParser")
    ops = SCENARIOS[name]

    def run_op(it: Interp, parser, op):
        if op[0] == "parse":
            return it.call_function(prog.func("parser", "ExpressionParser.parse"), [parser, op[1]], {})
        if op[0] == "tokenize":
            return it.call_function(prog.func("parser", "ExpressionParser.tokenize"), [parser, op[1]], {})
        if op[0] == "clear":
            return it.call_function(prog.func("parser", "ExpressionParser.clear_cache"), [parser], {})
        raise AnalysisError(op)

    def body(it: Interp):
        texts = [op[1] for op in ops if len(op) > 1]
        it.token_counts = {t: 1 for t in texts[:-1] if t != texts[-1]}
        install_token_model(it, types, n, ["sgn"])
        used = it.instantiate(pcls, [], {})
        log = []
        last_list = None
        for op in ops:
            if op[0] == "consume":
                if isinstance(last_list, Lst):
                    while last_list.items:   # the caller consumes / edits the list it was handed
                        last_list.items.pop(0)
                log.append(("consume", ("none",)))
                continue
            try:
                r = ("return", run_op(it, used, op))
            except AbsRaise as e:
                r = ("raise", e)
            if op[0] == "tokenize" and r[0] == "return":
                last_list = r[1]
            log.append((op, r))
        fresh = it.instantiate(pcls, [], {})
        q = ops[-1]
        try:
            fr = ("return", run_op(it, fresh, q))
        except AbsRaise as e:
            fr = ("raise", e)
        it.scen = (log, fr, used, fresh)
        return None
    return body


def judge_scenario(prog: Program, S: Summaries, name: str, p: PathResult) -> dict:
    it = p.interp
    rec: Dict[str, Any] = {"scenario": name, "cond": p.cond[-300:]}
    if p.outcome != "return":
        rec["outcome"] = p.outcome
        rec["note"] = str(p.exc or p.note)
        return rec
    log, fr, used = it.scen[:3]
    q = SCENARIOS[name][-1]
    last = [x for x in log if x[0] == q][-1][1]
    a = _describe(it, S, q[0], last)
    b = _describe(it, S, q[0], fr)
    rec["outcome"] = "ok" if a == b else "differs"
    rec["used"] = repr(a)[:300]
    rec["fresh"] = repr(b)[:300]
    # handed-out token lists must be independent copies: not the cached object itself
    if q[0] == "tokenize" and last[0] == "return" and isinstance(last[1], Lst):
        cache = used.fields.get("_tokens_cache") if isinstance(used, Rec) else None
        if isinstance(cache, Dct):
            for v in cache.items.values():
                if v is last[1]:
                    rec["outcome"] = "aliased"
                    rec["note"] = "tokenize() hands out the cached list object itself"
    # sticky state: after the same final parse, every non-cache field of the used parser must equal the fresh parser's
    if q[0] == "parse" and isinstance(used, Rec):
        fresh_obj = it.scen[3] if len(it.scen) > 3 else None
        if isinstance(fresh_obj, Rec):
            diffs = []
            for k in sorted(set(used.fields) | set(fresh_obj.fields)):
                if k in ("_parse_cache", "_tokens_cache", "tokenizer"):
                    continue
                a, b = used.fields.get(k, "<unset>"), fresh_obj.fields.get(k, "<unset>")
                if _field_repr(a) != _field_repr(b):
                    diffs.append(f"{k}: used {_field_repr(a)} / fresh {_field_repr(b)}")
            if diffs and rec["outcome"] == "ok":
                rec["outcome"] = "differs"
                rec["used"] = "parser state after the call: " + "; ".join(diffs)[:300]
                rec["fresh"] = "(state of a fresh parser after the same call)"
                rec["note"] = "a field of the parser keeps a value from the earlier call"
    inv = {v: k for k, v in token_types(prog).items()}
    rec["types"] = {k: [sorted(inv.get(x, x) for x in it.charsets[s.cid]) for s in syms]
                    for k, syms in it.__dict__.get("text_types", {}).items()}
    return rec


def analyse_scenarios(repo: str, n: int) -> List[dict]:
    prog, S = _setup(repo)
    out = []
    for name in SCENARIOS:
        body = scenario_body(prog, name, n)
        cfg = {"max_updepth": 0, "hooks": S.hooks(), "max_steps": 60000, "max_inline": 80, "budget_soft": True,
               "time_budget": 60}
        recs: List[dict] = []
        explore(prog, body, cfg, max_paths=20000, sink=lambda p: recs.append(judge_scenario(prog, S, name, p)))
        out.extend(recs)
    return out


# --------------------------------------------------------------------------- grammar-derivable sequences beyond the exhaustive bound
def derivable_sequences(n: int) -> List[Tuple[str, ...]]:
    """All token-type sequences of exactly n tokens that the documented grammar derives (memoised enumeration)."""
    from functools import lru_cache

    @lru_cache(None)
    def equal(k):
        out = set(add(k))
        for i in range(1, k - 1):
            for a in equal(i):
                for b in add(k - 1 - i):
                    out.add(a + ("Equal",) + b)
        return frozenset(out)

    @lru_cache(None)
    def add(k):
        out = set(mult(k))
        for i in range(1, k - 1):
            for a in add(i):
                for b in mult(k - 1 - i):
                    for op in ("Plus", "Minus"):
                        out.add(a + (op,) + b)
        return frozenset(out)

    @lru_cache(None)
    def mult(k):
        out = set(exp(k))
        for i in range(1, k - 1):
            for a in mult(i):
                for b in exp(k - 1 - i):
                    for op in ("Multiply", "Divide"):
                        out.add(a + (op,) + b)
        return frozenset(out)

    @lru_cache(None)
    def exp(k):
        out = set(unary(k))
        for i in range(1, k - 1):
            for a in unary(i):
                for b in unary(k - 1 - i):
                    out.add(a + ("Exponent",) + b)
        return frozenset(out)

    @lru_cache(None)
    def unary(k):
        out = set(prefix(k))
        if k >= 2:
            for a in prefix(k - 1):
                out.add(("Minus",) + a)
        return frozenset(out)

    @lru_cache(None)
    def prefix(k):
        out = set(factors(k))
        if k == 1:
            out.add(("Constant",))
        if k == 2:
            out.add(("Constant", "Factorial"))
        if k >= 2:
            for a in factors(k - 1):
                out.add(("Constant",) + a)
        return frozenset(out)

    @lru_cache(None)
    def factors(k):
        out = set(factorlist(k))
        for m in range(1, k - 1):
            for a in factorlist(m):
                for b in unary(k - 1 - m):
                    out.add(a + ("Exponent",) + b)
        return frozenset(out)

    @lru_cache(None)
    def factorlist(k):
        out = set(factor(k))
        for i in range(1, k):
            for a in factor(i):
                for b in factorlist(k - i):
                    out.add(a + b)
        return frozenset(out)

    @lru_cache(None)
    def factor(k):
        out = set()
        if k == 1:
            out.add(("Variable",))
        if k >= 4:
            for a in add(k - 3):
                out.add(("Function", "OpenParen") + a + ("CloseParen",))
        if k >= 3:
            for a in add(k - 2):
                out.add(("OpenParen",) + a + ("CloseParen",))
        return frozenset(out)

    return sorted(equal(n))


def _valid_worker(task):
    repo, seqs = task
    prog, S = _setup(repo)
    types = token_types(prog)
    pcls = prog.cls("ExpressionParser")
    m_parse = prog.func("parser", "ExpressionParser.parse")
    out = []
    n_ok = 0
    for seq in seqs:
        def body(it: Interp, seq=seq):
            it.token_counts = {}
            install_token_model(it, types, len(seq), ["sgn"])
            it.text_types = {"T": [it.new_char(frozenset([types[t]])) for t in seq]}
            parser = it.instantiate(pcls, [], {})
            return it.call_function(m_parse, [parser, "T"], {})
        cfg = {"max_updepth": 0, "hooks": S.hooks(), "max_steps": 40000, "max_inline": 80}
        res = explore(prog, body, cfg, max_paths=512)
        toks = [(t, i) for i, t in enumerate(seq)]
        status, ref = reference(toks)
        for p in res:
            it = p.interp
            if any(k.startswith("malformed-number") and v for k, v in it.atoms.items()):
                continue
            rec = {"tokens": list(seq), "surface": surface(toks), "n": len(seq)}
            if p.outcome != "return" or not isinstance(p.value, Node):
                rec["problem"] = f"the grammar derives this string but the parser answers {p.outcome} {p.exc or p.note}"
                rec["exc"] = p.exc.exc if p.exc else None
                rec["contract_ok"] = exc_in_contract(prog, p.exc.exc) if p.exc else None
                out.append(rec)
                continue
            hv = HeapView(it, S.optable)
            term = hv.term(p.value.cid, "cur")
            eq = terms_equal(term, ref)
            if eq is True:
                n_ok += 1
                continue
            rec["problem"] = "value differs" if eq is False else "undecided"
            rec["term_str"] = _tstr(term)
            rec["ref_term_str"] = _tstr(ref)
            rec["value_equal"] = eq
            out.append(rec)
    return n_ok, out


def analyse_valid(repo: str, n: int) -> Tuple[int, List[dict]]:
    """Interpret the parser on every grammar-derivable sequence of exactly n tokens; returns (#agreeing, disagreements)."""
    import json
    from .report import CACHE, VERIF
    prog, S = _setup(repo)
    digest = source_digest(prog, extra=f"valid{n}" + _self_digest())
    cache = CACHE / f"validcases{n}-{digest}.json"
    if cache.exists():
        try:
            d = json.loads(cache.read_text())
            return d["ok"], d["bad"]
        except Exception:
            pass
    seqs = derivable_sequences(n)
    chunk = max(50, len(seqs) // 64)
    tasks = [(str(prog.repo), seqs[i:i + chunk]) for i in range(0, len(seqs), chunk)]
    nproc = min(int(os.environ.get("VERIF_JOBS", "16")), os.cpu_count() or 1)
    ctx = mp.get_context("fork")
    with ctx.Pool(nproc) as pool:
        res = pool.map(_valid_worker, tasks, chunksize=1)
    ok = sum(r[0] for r in res)
    bad = [x for r in res for x in r[1]]
    try:
        cache.parent.mkdir(exist_ok=True)
        if str(prog.repo) == "/repo":
            for old in cache.parent.glob(f"validcases{n}-*.json"):
                old.unlink()
        cache.write_text(json.dumps({"ok": ok, "bad": bad}))
    except Exception:
        pass
    return ok, bad


# --------------------------------------------------------------------------- near-miss sequences beyond the exhaustive bound
def near_miss_sequences(n: int) -> List[Tuple[str, ...]]:
    """Token sequences of length n obtained from a derivable sequence of length n+1 by deleting one token, or of
    length n by replacing its last token, that the grammar does NOT derive (truncated / malformed inputs)."""
    good_n = set(derivable_sequences(n))
    out = set()
    for s in derivable_sequences(n + 1):
        for i in range(len(s)):
            t = s[:i] + s[i + 1:]
            if t not in good_n:
                out.add(t)
    for s in good_n:
        for rep in ("Plus", "CloseParen", "OpenParen", "Exponent", "Factorial", "Equal"):
            t = s[:-1] + (rep,)
            if t not in good_n:
                out.add(t)
    return sorted(out)


def _nearmiss_worker(task):
    repo, seqs = task
    prog, S = _setup(repo)
    types = token_types(prog)
    pcls = prog.cls("ExpressionParser")
    m_parse = prog.func("parser", "ExpressionParser.parse")
    bad = []
    n_ok = 0
    for seq in seqs:
        def body(it: Interp, seq=seq):
            it.token_counts = {}
            install_token_model(it, types, len(seq), ["sgn"])
            it.text_types = {"T": [it.new_char(frozenset([types[t]])) for t in seq]}
            parser = it.instantiate(pcls, [], {})
            return it.call_function(m_parse, [parser, "T"], {})
        cfg = {"max_updepth": 0, "hooks": S.hooks(), "max_steps": 40000, "max_inline": 80}
        for p in explore(prog, body, cfg, max_paths=512):
            toks = [(t, i) for i, t in enumerate(seq)]
            if p.outcome == "raise" and exc_in_contract(prog, p.exc.exc):
                n_ok += 1
                continue
            rec = {"tokens": list(seq), "surface": surface(toks), "n": len(seq), "outcome": p.outcome}
            if p.outcome == "raise":
                rec["exc"] = p.exc.exc
                rec["site"] = p.exc.site
                rec["detail"] = p.exc.detail[:160]
            elif p.outcome == "bound":
                rec["note"] = p.note
            else:
                rec["note"] = "accepted although the grammar does not derive it"
            bad.append(rec)
    return n_ok, bad


def analyse_near_misses(repo: str, n: int) -> Tuple[int, List[dict]]:
    import json
    from .report import CACHE, VERIF
    prog, S = _setup(repo)
    digest = source_digest(prog, extra=f"nearmiss{n}" + _self_digest())
    cache = CACHE / f"nearmiss{n}-{digest}.json"
    if cache.exists():
        try:
            d = json.loads(cache.read_text())
            return d["ok"], d["bad"]
        except Exception:
            pass
    seqs = near_miss_sequences(n)
    chunk = max(50, len(seqs) // 64)
    tasks = [(str(prog.repo), seqs[i:i + chunk]) for i in range(0, len(seqs), chunk)]
    nproc = min(int(os.environ.get("VERIF_JOBS", "16")), os.cpu_count() or 1)
    ctx = mp.get_context("fork")
    with ctx.Pool(nproc) as pool:
        res = pool.map(_nearmiss_worker, tasks, chunksize=1)
    ok = sum(r[0] for r in res)
    bad = [x for r in res for x in r[1]]
    try:
        cache.parent.mkdir(exist_ok=True)
        if str(prog.repo) == "/repo":
            for old in cache.parent.glob(f"nearmiss{n}-*.json"):
                old.unlink()
        cache.write_text(json.dumps({"ok": ok, "bad": bad}))
    except Exception:
        pass
    return ok, bad
