"""CLI: ./check <Cxx|all> [--tier quick|thorough] [--replay FILE]"""
from __future__ import annotations

import importlib
import json
import os
import sys
import time
import traceback

from .report import AnalysisError, Check, write_error_evidence

PIDS = [f"C{n:02d}" for n in range(1, 19)]


def run_one(pid: str, tier: str, seed: int) -> int:
    t0 = time.time()
    try:
        mod = importlib.import_module(f"props.{pid.lower()}")
    except ModuleNotFoundError:
        print(f"ANALYSIS-ERROR property={pid} no check implemented")
        write_error_evidence(pid, tier, seed, "no check implemented", t0)
        return 2
    except Exception as e:
        print(f"ANALYSIS-ERROR property={pid} check module failed to load: {type(e).__name__}: {e}")
        write_error_evidence(pid, tier, seed, f"check module failed to load: {e}", t0)
        return 2
    chk = None
    try:
        chk = Check(pid, tier, seed)
        mod.run(chk)
        return chk.finish()
    except AnalysisError as e:
        msg = str(e)
    except Exception as e:  # a traceback must never look like a violation
        sys.stderr.write(traceback.format_exc())
        msg = f"internal error: {type(e).__name__}: {e}"
    # the analysis stopped half-way.  Violations it had already established (each carries its own witness) are still
    # reported - exit 1 takes precedence - and the interruption is an ANALYSIS-ERROR line next to them; with nothing
    # established the run is simply broken (exit 2).
    if chk is not None and any(o.status == "fail" for o in chk.obls):
        try:
            chk.aborted = msg
            return chk.finish()
        except Exception:  # noqa: BLE001
            sys.stderr.write(traceback.format_exc())
    print(f"ANALYSIS-ERROR property={pid} {msg}")
    write_error_evidence(pid, tier, seed, msg, t0)
    return 2


def main(argv) -> int:
    if not argv:
        print(__doc__)
        return 2
    target = argv[0]
    if target == "selftest":
        from selftest import runner
        return runner.main(argv[1:])
    tier = os.environ.get("VERIF_TIER", "quick")
    replay = None
    i = 1
    while i < len(argv):
        if argv[i] == "--tier":
            tier = argv[i + 1]
            i += 2
        elif argv[i] == "--replay":
            replay = argv[i + 1]
            i += 2
        else:
            print(f"unknown argument {argv[i]}")
            return 2
    if tier not in ("quick", "thorough"):
        tier = "quick"
    try:
        seed = int(os.environ.get("VERIF_SEED", "0"))
    except ValueError:
        seed = 0
    if replay:
        data = json.loads(open(replay).read())
        print(json.dumps(data, indent=1))
        print("re-running the check that produced it:")
        return run_one(data["property"], data.get("tier", tier), seed)
    if target == "selftest":
        from selftest import runner
        return runner.main(argv[1:])
    if target == "all":
        worst = 0
        for pid in PIDS:
            worst = max(worst, run_one(pid, tier, seed))
        return worst
    if target.upper() not in PIDS:
        print(f"unknown property {target}")
        return 2
    return run_one(target.upper(), tier, seed)


if __name__ == "__main__":
    sys.exit(main(sys.argv[1:]))
