"""Regular expressions over symbolic strings.

A compiled pattern is the stdlib's own parse tree (`re._parser.parse`); matching is a backtracking interpreter of that
tree whose only primitive is "does the character at position i satisfy predicate P" - asked through a callback, so the
abstract interpreter answers it by splitting the character's finite set (one path per answer) and a concrete string
answers it directly.  Every pattern is cross-validated once against `re` itself on all short strings over the
characters the pattern mentions (plus a few others); a disagreement makes the pattern unsupported (analysis error),
never a verdict.

Supported: literals, classes (ranges, negation, \\d \\w \\s and their complements), '.', branches, groups (capturing or
not), greedy / lazy repeats, ^ $ \\A \\Z \\b \\B, look-ahead; flags IGNORECASE, DOTALL, MULTILINE.  Not supported (raise
RegexUnsupported): back-references, look-behind, conditionals, possessive / atomic groups.
"""
from __future__ import annotations

import itertools
import re
from typing import Any, Callable, Dict, List, Optional, Sequence, Tuple

try:  # Python >= 3.11
    import re._parser as sre_parse  # type: ignore
    import re._constants as sre_c  # type: ignore
except ImportError:  # pragma: no cover
    import sre_parse  # type: ignore
    import sre_constants as sre_c  # type: ignore


class RegexUnsupported(Exception):
    pass


Tester = Callable[[int, Callable[[str], bool], str], bool]   # (position, predicate, label) -> bool


def _category(cat) -> Callable[[str], bool]:
    n = str(cat)
    table = {
        "CATEGORY_DIGIT": lambda c: c.isdigit(),
        "CATEGORY_NOT_DIGIT": lambda c: not c.isdigit(),
        "CATEGORY_SPACE": lambda c: c.isspace(),
        "CATEGORY_NOT_SPACE": lambda c: not c.isspace(),
        "CATEGORY_WORD": lambda c: c.isalnum() or c == "_",
        "CATEGORY_NOT_WORD": lambda c: not (c.isalnum() or c == "_"),
    }
    if n not in table:
        raise RegexUnsupported(f"category {n}")
    return table[n]


def _class_pred(items, ignorecase: bool) -> Callable[[str], bool]:
    negate = False
    preds: List[Callable[[str], bool]] = []
    for op, av in items:
        if op is sre_c.NEGATE:
            negate = True
        elif op is sre_c.LITERAL:
            preds.append(lambda c, av=av: ord(c) == av)
        elif op is sre_c.RANGE:
            lo, hi = av
            preds.append(lambda c, lo=lo, hi=hi: lo <= ord(c) <= hi)
        elif op is sre_c.CATEGORY:
            preds.append(_category(av))
        else:
            raise RegexUnsupported(f"class item {op}")

    def base(c: str) -> bool:
        return any(p(c) for p in preds)

    def pred(c: str) -> bool:
        r = base(c)
        if ignorecase and not r:
            r = any(base(v) for v in {c.lower(), c.upper()} if len(v) == 1)
        return (not r) if negate else r
    return pred


def _lit_pred(code: int, ignorecase: bool, negate: bool = False) -> Callable[[str], bool]:
    ch = chr(code)

    def pred(c: str) -> bool:
        r = c == ch or (ignorecase and (c.lower() == ch.lower() or c.upper() == ch.upper()))
        return (not r) if negate else r
    return pred


def _is_word(c: str) -> bool:
    return c.isalnum() or c == "_"


class Regex:
    def __init__(self, pattern: str, flags: int = 0):
        self.pattern = pattern
        self.flags = flags
        try:
            self.compiled = re.compile(pattern, flags)
            self.tree = sre_parse.parse(pattern, flags)
        except re.error as e:
            raise RegexUnsupported(f"invalid pattern {pattern!r}: {e}")
        self.groups = self.compiled.groups
        f = self.compiled.flags
        self.ignorecase = bool(f & re.IGNORECASE)
        self.dotall = bool(f & re.DOTALL)
        self.multiline = bool(f & re.MULTILINE)
        self._validated = False

    def __repr__(self):
        return f"Regex({self.pattern!r})"

    # ------------------------------------------------------------------ engine
    def run(self, n: int, start: int, tester: Tester, full: bool = False, endpos: Optional[int] = None):
        """Match at `start` in a subject of length n.  Returns (end, groups) or None; groups[k] = (s, e) or None."""
        end_limit = n if endpos is None else min(n, endpos)
        groups: Tuple[Optional[Tuple[int, int]], ...] = (None,) * (self.groups + 1)

        def final(pos, g):
            if full and pos != end_limit:
                return None
            return pos, g
        return self._seq(list(self.tree), 0, start, groups, final, end_limit, tester)

    def _seq(self, seq, idx, pos, groups, k, n, tester):
        if idx == len(seq):
            return k(pos, groups)
        op, av = seq[idx]

        def rest(p, g):
            return self._seq(seq, idx + 1, p, g, k, n, tester)

        def one(pred, label):
            if pos < n and tester(pos, pred, label):
                return rest(pos + 1, groups)
            return None
        if op is sre_c.LITERAL:
            return one(_lit_pred(av, self.ignorecase), f"{chr(av)!r}")
        if op is sre_c.NOT_LITERAL:
            return one(_lit_pred(av, self.ignorecase, True), f"not {chr(av)!r}")
        if op is sre_c.ANY:
            return one((lambda c: True) if self.dotall else (lambda c: c != "\n"), "any")
        if op is sre_c.IN:
            return one(_class_pred(av, self.ignorecase), "class " + self._class_label(av))
        if op is sre_c.BRANCH:
            for alt in av[1]:
                r = self._seq(list(alt), 0, pos, groups, rest, n, tester)
                if r is not None:
                    return r
            return None
        if op is sre_c.SUBPATTERN:
            gid, add_flags, del_flags, p = av
            if add_flags or del_flags:
                raise RegexUnsupported("inline flag groups")

            def close(p2, g2, gid=gid, start=pos):
                if gid is not None:
                    g2 = g2[:gid] + ((start, p2),) + g2[gid + 1:]
                return rest(p2, g2)
            return self._seq(list(p), 0, pos, groups, close, n, tester)
        if op in (sre_c.MAX_REPEAT, sre_c.MIN_REPEAT):
            lo, hi, p = av
            hi = 10 ** 9 if hi is sre_c.MAXREPEAT else hi
            body = list(p)
            greedy = op is sre_c.MAX_REPEAT

            def rep(count, p0, g0):
                def more():
                    if count >= hi:
                        return None

                    def after(p1, g1):
                        if p1 == p0 and count >= lo:
                            return None  # empty iteration: stop (as sre does)
                        return rep(count + 1, p1, g1)
                    return self._seq(body, 0, p0, g0, after, n, tester)

                def stop():
                    return rest(p0, g0) if count >= lo else None
                first, second = (more, stop) if greedy else (stop, more)
                r = first()
                return r if r is not None else second()
            return rep(0, pos, groups)
        if op is sre_c.AT:
            name = str(av)
            ok: Optional[bool]
            if name == "AT_BEGINNING_STRING" or (name == "AT_BEGINNING" and not self.multiline):
                ok = pos == 0
            elif name == "AT_BEGINNING":
                ok = pos == 0 or tester(pos - 1, lambda c: c == "\n", "newline before")
            elif name == "AT_END_STRING":
                ok = pos == n
            elif name == "AT_END":
                if pos == n:
                    ok = True
                elif self.multiline:
                    ok = tester(pos, lambda c: c == "\n", "newline")
                else:
                    ok = pos == n - 1 and tester(pos, lambda c: c == "\n", "newline")
            elif name in ("AT_BOUNDARY", "AT_NON_BOUNDARY"):
                before = pos > 0 and tester(pos - 1, _is_word, "word char before")
                after = pos < n and tester(pos, _is_word, "word char")
                ok = (before != after) if name == "AT_BOUNDARY" else (before == after)
            else:
                raise RegexUnsupported(f"anchor {name}")
            return rest(pos, groups) if ok else None
        if op in (sre_c.ASSERT, sre_c.ASSERT_NOT):
            direction, p = av
            if direction != 1:
                raise RegexUnsupported("look-behind")
            r = self._seq(list(p), 0, pos, groups, lambda p2, g2: (p2, g2), n, tester)
            if op is sre_c.ASSERT:
                return rest(pos, r[1]) if r is not None else None
            return rest(pos, groups) if r is None else None
        raise RegexUnsupported(f"regex construct {op}")

    @staticmethod
    def _class_label(items) -> str:
        out = []
        for op, av in items:
            if op is sre_c.NEGATE:
                out.append("^")
            elif op is sre_c.LITERAL:
                out.append(chr(av))
            elif op is sre_c.RANGE:
                out.append(f"{chr(av[0])}-{chr(av[1])}")
            else:
                out.append(str(av).replace("CATEGORY_", "\\").lower())
        return "[" + "".join(out) + "]"

    # ------------------------------------------------------------------ cross-validation against the stdlib
    def mentioned(self) -> List[str]:
        chars = set()

        def walk(seq):
            for op, av in seq:
                if op in (sre_c.LITERAL, sre_c.NOT_LITERAL):
                    chars.add(chr(av))
                elif op is sre_c.IN:
                    for o2, a2 in av:
                        if o2 is sre_c.LITERAL:
                            chars.add(chr(a2))
                        elif o2 is sre_c.RANGE:
                            chars.update({chr(a2[0]), chr(a2[1]), chr(max(0, a2[0] - 1)), chr(a2[1] + 1)})
                elif op is sre_c.BRANCH:
                    for alt in av[1]:
                        walk(alt)
                elif op is sre_c.SUBPATTERN:
                    walk(av[3])
                elif op in (sre_c.MAX_REPEAT, sre_c.MIN_REPEAT):
                    walk(av[2])
                elif op in (sre_c.ASSERT, sre_c.ASSERT_NOT):
                    walk(av[1])
        walk(self.tree)
        return sorted(chars)

    def validate(self) -> None:
        if self._validated:
            return
        alphabet = (self.mentioned()[:6] + ["5", "q", "Q", " ", "\n", "_", "-"])
        alphabet = list(dict.fromkeys(alphabet))[:9]
        for length in range(0, 5):
            for combo in itertools.product(alphabet, repeat=length):
                s = "".join(combo)
                for start in range(0, min(length, 2) + 1):
                    got = self.run(len(s), start, lambda i, pred, label, s=s: pred(s[i]))
                    want = self.compiled.match(s, start)
                    if (got is None) != (want is None):
                        raise RegexUnsupported(f"engine disagrees with re on {self.pattern!r} / {s!r} at {start}")
                    if got is not None:
                        end, groups = got
                        spans = tuple((want.span(k) if want.span(k) != (-1, -1) else None) for k in range(1, self.groups + 1))
                        if end != want.end() or tuple(groups[1:]) != spans:
                            raise RegexUnsupported(f"engine disagrees with re on {self.pattern!r} / {s!r} at {start}: "
                                                   f"{(end, groups[1:])} vs {(want.end(), spans)}")
                if length >= 4 and len(alphabet) > 6:
                    pass
            if length >= 3 and len(alphabet) ** (length + 1) > 12000:
                break
        self._validated = True


_CACHE: Dict[Tuple[str, int], Regex] = {}


def get_regex(pattern: str, flags: int = 0) -> Regex:
    """Compiled and cross-validated pattern (memoised per process)."""
    k = (pattern, flags)
    r = _CACHE.get(k)
    if r is None:
        r = Regex(pattern, flags)
        r.validate()
        _CACHE[k] = r
    return r


class MatchObj:
    """Result of a successful match over a subject (sequence of items); spans are positions in the subject."""

    def __init__(self, regex: Regex, subject: Sequence[Any], start: int, end: int, groups):
        self.regex = regex
        self.subject = subject
        self.spans = ((start, end),) + tuple(groups[1:])

    def span(self, k: int = 0):
        if not (0 <= k < len(self.spans)):
            raise IndexError("no such group")
        return self.spans[k]
