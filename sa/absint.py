"""E3 - path-sensitive abstract interpreter over the loop-free (and boundedly looping) Python subset
used by mathy_core's rules, helpers, printers and tree primitives.

Nothing from /repo is imported or executed: function bodies are `ast` trees interpreted over
abstract values.  Forking is by re-execution under a decision prefix (depth-first enumeration of
choice sequences); a path is a complete run under one choice sequence.

Abstract domain (DESIGN E3): node cells with kind sets / lazily materialised link fields, None-ness,
sign classes and equalities of number symbols, identifier equality classes, concrete
bool/int/str values, records for the repo's plain classes.
"""
from __future__ import annotations

import ast
from fractions import Fraction
from typing import Any, Callable, Dict, List, Optional, Sequence, Tuple

from . import algebra as A
from .model import FuncInfo, ClassInfo, Program, const_fold, unparse
from .report import AnalysisError

BIN = frozenset(["EqualExpression", "AddExpression", "SubtractExpression", "MultiplyExpression",
                 "DivideExpression", "PowerExpression"])
UN = frozenset(["NegateExpression", "FactorialExpression", "AbsExpression", "SgnExpression"])
LEAF = frozenset(["ConstantExpression", "VariableExpression"])
ALL_KINDS = BIN | UN | LEAF
NON_ROOT_KINDS = ALL_KINDS - {"EqualExpression"}


class Unsupported(AnalysisError):
    pass


class PathInfeasible(Exception):
    pass


class BoundExceeded(Exception):
    pass


class HistoryDependence(Exception):
    """The analysed call reads a mutable container that lives on a retained object (rule / parser state created
    before the call and written by calls): the value read was put there by an earlier call."""

    def __init__(self, site: str, what: str):
        super().__init__(f"{what} at {site}")
        self.site = site
        self.what = what


class Halt(Exception):
    """Raised when an exploration only wants the first `halt_depth` decisions of a path."""


class AbsRaise(Exception):
    def __init__(self, exc: str, site: str, detail: str = ""):
        super().__init__(f"{exc} at {site} {detail}")
        self.exc = exc
        self.site = site
        self.detail = detail


class _Return(Exception):
    def __init__(self, value):
        self.value = value


class _Break(Exception):
    pass


class _Continue(Exception):
    pass


# ---------------------------------------------------------------------------- abstract values
class Node:
    __slots__ = ("cid",)

    def __init__(self, cid: int):
        self.cid = cid

    def __eq__(self, o):
        return isinstance(o, Node) and o.cid == self.cid

    def __hash__(self):
        return hash(("Node", self.cid))

    def __repr__(self):
        return f"Node#{self.cid}"


class Num:
    """Symbolic number (algebra term)."""
    __slots__ = ("term",)

    def __init__(self, term):
        self.term = term

    def __repr__(self):
        return f"Num({A.term_str(self.term)})"


class Ident:
    __slots__ = ("name",)

    def __init__(self, name: str):
        self.name = name

    def __repr__(self):
        return f"Ident({self.name})"


class Tup:
    __slots__ = ("items", "cls")

    def __init__(self, items, cls=None):
        self.items = tuple(items)
        self.cls = cls  # NamedTuple class info or None

    def __repr__(self):
        return f"Tup{self.items}"


class Lst:
    def __init__(self, items):
        self.items = list(items)

    def __repr__(self):
        return f"Lst{self.items}"


class Dct:
    def __init__(self, items=None):
        self.items = dict(items or {})
        self.retained = False
        self.born_empty = not self.items


class Rec:
    def __init__(self, cls: ClassInfo):
        self.cls = cls
        self.fields: Dict[str, Any] = {}
        self.retained = False
        self.touched: set = set()

    def __repr__(self):
        return f"Rec<{self.cls.name}>"


class Cls:
    __slots__ = ("info",)

    def __init__(self, info: ClassInfo):
        self.info = info

    def __repr__(self):
        return f"Cls<{self.info.name}>"


class Fn:
    __slots__ = ("info", "closure")

    def __init__(self, info: FuncInfo, closure=None):
        self.info = info
        self.closure = closure


class Bound:
    __slots__ = ("selfv", "info")

    def __init__(self, selfv, info: FuncInfo):
        self.selfv = selfv
        self.info = info


class Builtin:
    __slots__ = ("name",)

    def __init__(self, name):
        self.name = name

    def __repr__(self):
        return f"Builtin<{self.name}>"


class Ext:
    """Reference to something outside the package (np, math, ...)."""
    __slots__ = ("path",)

    def __init__(self, path: str):
        self.path = path

    def __repr__(self):
        return f"Ext<{self.path}>"


class Opaque:
    """Unknown value; truthiness forks; `tag` says where it came from."""
    __slots__ = ("tag", "truthy")

    def __init__(self, tag: str, truthy: Optional[bool] = None):
        self.tag = tag
        self.truthy = truthy

    def __repr__(self):
        return f"Opaque<{self.tag}>"


class Render:
    """Abstract string: tuple of parts; part = str | ('node', cid, Render) | ('num', term) | ('ident', name)
    | ('opaque', tag)."""
    __slots__ = ("parts",)

    def __init__(self, parts):
        self.parts = tuple(parts)

    def __repr__(self):
        return f"Render{self.parts}"


class SymChar:
    """A character known only as a member of a finite set (interp.charsets[cid]); comparisons split the set."""
    __slots__ = ("cid",)

    def __init__(self, cid: int):
        self.cid = cid

    def __repr__(self):
        return f"ch#{self.cid}"


class Native:
    """A callable of the standard library modelled by the interpreter (operator.itemgetter(...), ...)."""
    __slots__ = ("name", "fn")

    def __init__(self, name: str, fn):
        self.name = name
        self.fn = fn

    def __repr__(self):
        return f"Native<{self.name}>"


class _Draining:
    """Iterates a one-shot iterator value lazily: each step takes the next element off it (a loop left early leaves the
    rest for the next consumer, a loop run to the end leaves it empty)."""

    def __init__(self, gen: "Lst"):
        self.gen = gen

    def __iter__(self):
        return self

    def __next__(self):
        if not self.gen.items:
            raise StopIteration
        return self.gen.items.pop(0)


class _LiveList:
    """Iterates a list the way the for statement does: by position, re-reading the list at every step - a loop body that
    removes or inserts elements of the list it walks skips or repeats elements exactly as the interpreter would."""

    def __init__(self, lst: "Lst"):
        self.lst = lst
        self.i = 0

    def __iter__(self):
        return self

    def __next__(self):
        if self.i >= len(self.lst.items):
            raise StopIteration
        x = self.lst.items[self.i]
        self.i += 1
        return x


class FinExpr:
    """A value computed from a finite-set symbol by concrete operations: fn(member) for the eventual member."""
    __slots__ = ("cid", "fn", "desc")

    def __init__(self, cid: int, fn, desc: str):
        self.cid = cid
        self.fn = fn
        self.desc = desc

    def __repr__(self):
        return f"Fin<{self.desc}>"


class SymStr:
    """A string whose characters are concrete 1-char strings or SymChars."""
    __slots__ = ("items",)

    def __init__(self, items):
        out = []
        for x in items:
            if isinstance(x, str):
                out.extend(list(x))
            elif isinstance(x, SymStr):
                out.extend(x.items)
            else:
                out.append(x)
        self.items = tuple(out)

    def __repr__(self):
        return "SymStr(" + "".join(x if isinstance(x, str) else f"<{x.cid}>" for x in self.items) + ")"


class Found:
    """Result of find_type on a partially materialised subtree."""

    def __init__(self, definite: List[Node], maybe_more: bool, label: str):
        self.definite = definite
        self.maybe_more = maybe_more
        self.label = label


class FactorDict:
    """Contract value for util.factor(v): dict f with k*f[k]==v for every key, 1 in keys when v not in {0,nan}."""

    def __init__(self, term):
        self.term = term  # algebra term or concrete number


class CommonFactors:
    def __init__(self, l: FactorDict, r: FactorDict, g):
        self.l = l
        self.r = r
        self.g = g  # Num or concrete number: the selected common factor symbol


class SuperV:
    __slots__ = ("after", "selfv")

    def __init__(self, after: str, selfv):
        self.after = after
        self.selfv = selfv


class Cell:
    def __init__(self, cid: int, kinds: frozenset, fresh: bool, origin: str):
        self.cid = cid
        self.kinds = kinds
        self.fresh = fresh
        self.origin = origin
        self.entry: Dict[str, Any] = {}
        self.cur: Dict[str, Any] = {}
        self.mirror: Optional[Tuple[int, int, bool]] = None  # (clone op id, original cid, from_root)
        self.retained = False  # allocated outside the analysed call (default argument, module/rule state)
        self.updepth = 0
        self.alloc_site = ""

    def __repr__(self):
        ks = ",".join(sorted(k.replace("Expression", "") for k in self.kinds))
        return f"Cell#{self.cid}[{ks}]{'*' if self.fresh else ''}"


class Env:
    def __init__(self, interp: "Interp", func: Optional[FuncInfo], module, parent: Optional["Env"] = None):
        self.vars: Dict[str, Any] = {}
        self.func = func
        self.module = module
        self.parent = parent  # closure parent
        self.nonlocals: set = set()
        self.self_cls: Optional[str] = func.cls.name if func and func.cls else None

    def lookup(self, name: str):
        e = self
        while e is not None:
            if name in e.vars:
                return e.vars[name], True
            e = e.parent
        return None, False

    def assign(self, name: str, v) -> None:
        if name in self.nonlocals:
            e = self.parent
            while e is not None:
                if name in e.vars:
                    e.vars[name] = v
                    return
                e = e.parent
        self.vars[name] = v


_MISSING = object()


class Interp:
    """One path execution. Create through `explore`."""

    MAX_INLINE = 14
    MAX_LOOP = 12

    def __init__(self, prog: Program, prefix: Sequence[int], config: Optional[dict] = None):
        self.prog = prog
        self.prefix = list(prefix)
        self.decisions: List[Tuple[int, int, str]] = []  # (chosen, n, label)
        self.cells: Dict[int, Cell] = {}
        self.next_cid = 1
        self.events: List[tuple] = []
        self.depth = 0
        self.config = config or {}
        self.max_updepth = self.config.get("max_updepth", 2)
        self.num_facts: Dict[tuple, frozenset] = {}  # canon NF key -> allowed sign classes
        self.num_fact_terms: Dict[tuple, Any] = {}
        self.eq_subst: Dict[str, Any] = {}
        self.eq_log: List[tuple] = []
        self.ident_parent: Dict[str, str] = {}
        self.ident_diseq: set = set()
        self.clone_ops: Dict[int, Dict[int, int]] = {}
        self.next_clone_op = 1
        self.sym_counter = 0
        self.atoms: Dict[str, bool] = {}
        self.call_stack: List[str] = []
        self.ret_log: List[Tuple[str, int]] = []
        self.hooks: Dict[str, Callable] = dict(self.config.get("hooks", {}))
        self.global_writes: List[tuple] = []
        self.site = ""
        self.halt_depth: Optional[int] = None
        self.steps = 0
        self.charsets: Dict[int, frozenset] = {}
        self.retained_mode = 0

    # ------------------------------------------------------------------ choice
    def choose(self, n: int, label: str, options: Optional[List[str]] = None) -> int:
        if n <= 0:
            raise PathInfeasible()
        if n == 1:
            return 0
        i = len(self.decisions)
        c = self.prefix[i] if i < len(self.prefix) else 0
        if c >= n:
            raise AnalysisError(f"nondeterministic replay at decision {i} ({label}): {c} >= {n}")
        desc = f"{label}={options[c]}" if options else f"{label}#{c}"
        self.decisions.append((c, n, desc))
        if len(self.decisions) > 400:
            raise BoundExceeded("too many decisions")
        if self.halt_depth is not None and len(self.decisions) >= self.halt_depth:
            raise Halt()
        return c

    # ------------------------------------------------------------------ heap
    def new_cell(self, kinds, fresh: bool, origin: str) -> Cell:
        c = Cell(self.next_cid, frozenset(kinds), fresh, origin)
        c.retained = self.retained_mode > 0
        self.next_cid += 1
        self.cells[c.cid] = c
        return c

    def cell(self, n: Node) -> Cell:
        return self.cells[n.cid]

    def new_summary(self, kinds=NON_ROOT_KINDS, origin="arg") -> Node:
        c = self.new_cell(kinds, False, origin)
        return Node(c.cid)

    def refine(self, cell: Cell, kinds: frozenset) -> None:
        k = cell.kinds & kinds
        if not k:
            raise PathInfeasible()
        if k == cell.kinds:
            return
        cell.kinds = k
        self._propagate(cell)

    def _propagate(self, cell: Cell) -> None:
        if cell.fresh or cell.mirror is not None:
            return
        if self.config.get("tree_mode") == "binary":
            return  # any binary tree: a class does not restrict which child slots are occupied (C14/C15)
        if cell.kinds <= UN and isinstance(cell.entry.get("left"), Node) \
                and self.config.get("child_on_left", False) is False:
            raise PathInfeasible()
        if cell.kinds <= LEAF and (isinstance(cell.entry.get("left"), Node) or isinstance(cell.entry.get("right"), Node)):
            raise PathInfeasible()
        if self.config.get("equal_chain"):
            # W': the equations of a tree are its top region - an equation is the root or an operand of an equation (the
            # parser reads "a = b = c" as Equal(Equal(a, b), c); swapping the sides of the outer one puts it on the right)
            par = cell.entry.get("parent")
            if isinstance(par, Node) and cell.kinds <= {"EqualExpression"}:
                self.refine(self.cells[par.cid], frozenset(["EqualExpression"]))
            if "EqualExpression" not in cell.kinds:
                for s_ in ("left", "right"):
                    ch = cell.entry.get(s_)
                    if isinstance(ch, Node) and not self.cells[ch.cid].fresh:
                        self.refine(self.cells[ch.cid], self.cells[ch.cid].kinds - {"EqualExpression"})
            return
        if cell.kinds <= {"EqualExpression"}:
            # W: an equation is the root
            if "parent" in cell.entry:
                if cell.entry["parent"] is not None:
                    raise PathInfeasible()
            else:
                cell.entry["parent"] = None
                cell.cur.setdefault("parent", None)

    def _set_entry(self, cell: Cell, f: str, v) -> None:
        cell.entry[f] = v
        if f not in cell.cur:
            cell.cur[f] = v

    def group_of(self, cell: Cell, why: str) -> str:
        """Force the arity group of a cell (forks)."""
        groups = []
        for name, g in (("BIN", BIN), ("UN", UN), ("LEAF", LEAF)):
            if cell.kinds & g:
                groups.append((name, g))
        if len(groups) > 1:
            i = self.choose(len(groups), f"arity({cell.cid}) for {why}", [g[0] for g in groups])
            self.refine(cell, groups[i][1])
            return groups[i][0]
        return groups[0][0]

    def materialize_entry(self, cell: Cell, f: str):
        """Materialise the *entry* value of field f of a pre-existing cell (may fork)."""
        if f in cell.entry:
            return cell.entry[f]
        if cell.mirror is not None:
            return self._materialize_mirror(cell, f)
        if cell.fresh:
            return _MISSING
        if self.config.get("tree_mode") == "binary" and f in ("left", "right", "parent"):
            return self._materialize_free(cell, f)
        if f in ("left", "right"):
            g = self.group_of(cell, f".{f}")
            if f in cell.entry:  # group_of may have triggered propagation
                return cell.entry[f]
            if g == "LEAF":
                self._set_entry(cell, "left", None)
                self._set_entry(cell, "right", None)
            elif g == "UN":
                col = self.read_field(cell, "child_on_left")
                side, other = ("left", "right") if col is True else ("right", "left")
                if side not in cell.entry:
                    ch = self.new_cell(NON_ROOT_KINDS, False, "child")
                    ch.updepth = cell.updepth - 1
                    self._set_entry(ch, "parent", Node(cell.cid))
                    self._set_entry(cell, side, Node(ch.cid))
                if other not in cell.entry:
                    self._set_entry(cell, other, None)
            else:
                for s in ("left", "right"):
                    if s not in cell.entry:
                        ck = NON_ROOT_KINDS
                        if self.config.get("equal_chain") and "EqualExpression" in cell.kinds:
                            ck = ALL_KINDS
                        ch = self.new_cell(ck, False, "child")
                        ch.updepth = cell.updepth - 1
                        self._set_entry(ch, "parent", Node(cell.cid))
                        self._set_entry(cell, s, Node(ch.cid))
            return cell.entry[f]
        if f == "parent":
            opts = []
            if "EqualExpression" in cell.kinds or True:
                opts.append(("none", None, None))
            if cell.updepth < self.max_updepth and (cell.kinds - {"EqualExpression"}):
                opts.append(("left-of-binary", BIN, "left"))
                opts.append(("right-child", BIN | UN, "right"))
            if cell.updepth < self.max_updepth and self.config.get("equal_chain") and "EqualExpression" in cell.kinds:
                opts.append(("left-of-equation", frozenset(["EqualExpression"]), "left"))
                opts.append(("right-of-equation", frozenset(["EqualExpression"]), "right"))
            i = self.choose(len(opts), f"parent({cell.cid})", [o[0] for o in opts])
            name, pk, side = opts[i]
            if pk is None:
                self._set_entry(cell, "parent", None)
                return None
            if name.endswith("-of-equation"):
                self.refine(cell, frozenset(["EqualExpression"]))
            else:
                self.refine(cell, cell.kinds - {"EqualExpression"})
            p = self.new_cell(pk, False, "ctx")
            p.updepth = cell.updepth + 1
            self._set_entry(p, side, Node(cell.cid))
            self._set_entry(cell, "parent", Node(p.cid))
            return cell.entry["parent"]
        # payload / bookkeeping attributes
        present = self._attr_kinds(f)
        if present is not None:
            has = cell.kinds & present
            hasnot = cell.kinds - present
            if has and hasnot:
                i = self.choose(2, f"has-{f}({cell.cid})", ["yes", "no"])
                self.refine(cell, has if i == 0 else hasnot)
                has = cell.kinds & present
            if not has:
                return _MISSING
        if f == "value":
            v = Num(("sym", f"c{cell.cid}"))
        elif f == "identifier":
            v = Ident(f"v{cell.cid}")
        elif f == "child_on_left":
            v = self.config.get("child_on_left", False)
            if v == "any":
                v = self.choose(2, f"child_on_left({cell.cid})", ["False", "True"]) == 1
        elif f == "child":
            v = Opaque("unary.child")
        elif f == "id":
            v = Ident(f"id{cell.cid}")
        elif f in ("_changed", "_rendering_change"):
            v = False
        elif f == "classes":
            v = Lst([Opaque(f"class-of-{cell.cid}")])  # a mutable list owned by this node
        elif f == "cloned_node":
            v = None
        elif f == "cloned_target":
            v = ""
        else:
            return _MISSING
        self._set_entry(cell, f, v)
        return v

    def _materialize_free(self, cell: Cell, f: str):
        """Generic binary trees (C14/C15): every node has 0, left-only, right-only or 2 children."""
        if f in ("left", "right"):
            if -(cell.updepth - 1) > self.config.get("max_downdepth", 99):
                i = 0  # exploration bound on the depth below the argument node
                self.bounded = True
            else:
                i = self.choose(2, f"{f}({cell.cid})", ["absent", "present"])
            if i == 0:
                self._set_entry(cell, f, None)
                return None
            ch = self.new_cell(cell.kinds, False, "child")
            ch.updepth = cell.updepth - 1
            self._set_entry(ch, "parent", Node(cell.cid))
            self._set_entry(cell, f, Node(ch.cid))
            return cell.entry[f]
        opts = ["none"]
        if cell.updepth < self.max_updepth:
            opts += ["left-child", "right-child"]
        i = self.choose(len(opts), f"parent({cell.cid})", opts)
        if i == 0:
            self._set_entry(cell, "parent", None)
            return None
        p = self.new_cell(cell.kinds, False, "ctx")
        p.updepth = cell.updepth + 1
        self._set_entry(p, "left" if i == 1 else "right", Node(cell.cid))
        self._set_entry(cell, "parent", Node(p.cid))
        return cell.entry["parent"]

    def _attr_kinds(self, f: str) -> Optional[frozenset]:
        if f == "value":
            return frozenset(["ConstantExpression"])
        if f == "identifier":
            return frozenset(["VariableExpression"])
        if f in ("child_on_left", "child"):
            return UN
        return None

    def _materialize_mirror(self, cell: Cell, f: str):
        op, ocid, from_root = cell.mirror
        orig = self.cells[ocid]
        if f == "parent" and not from_root:
            return _MISSING  # set explicitly at clone time
        ov = self.materialize_entry(orig, f) if not orig.fresh else orig.cur.get(f, _MISSING)
        if orig.fresh and f not in orig.cur:
            return _MISSING
        # kinds of the clone follow the original
        cell.kinds = orig.kinds
        if ov is _MISSING:
            return _MISSING
        if isinstance(ov, Node):
            v = Node(self._clone_cell(op, ov.cid, from_root).cid)
            if f in ("left", "right"):
                self.cells[v.cid].cur.setdefault("parent", Node(cell.cid))
                self.cells[v.cid].entry.setdefault("parent", Node(cell.cid))
        else:
            v = ov
        if f == "child_on_left" and not self.config.get("clone_copies_side", True):
            v = False
        self._set_entry(cell, f, v)
        return v

    def _clone_cell(self, op: int, ocid: int, from_root: bool) -> Cell:
        m = self.clone_ops[op]
        if ocid in m:
            return self.cells[m[ocid]]
        orig = self.cells[ocid]
        c = self.new_cell(orig.kinds, False, "clone")
        c.mirror = (op, ocid, from_root)
        c.updepth = orig.updepth
        m[ocid] = c.cid
        return c

    def read_field(self, cell: Cell, f: str):
        if cell.mirror is not None:
            cell.kinds = self.cells[cell.mirror[1]].kinds
        if f in cell.cur:
            return cell.cur[f]
        if cell.fresh:
            return _MISSING
        v = self.materialize_entry(cell, f)
        if v is _MISSING:
            return _MISSING
        return cell.cur[f]

    def write_field(self, cell: Cell, f: str, v) -> None:
        if not cell.fresh and f not in cell.cur and f in ("left", "right", "parent", "value", "identifier"):
            self.materialize_entry(cell, f)
        old = cell.cur.get(f, _MISSING)
        cell.cur[f] = v
        self.events.append(("store", cell.cid, f, old, v, self.site, tuple(self.call_stack)))

    def kinds_of(self, cell: Cell) -> frozenset:
        if cell.mirror is not None:
            cell.kinds = self.cells[cell.mirror[1]].kinds
        return cell.kinds

    def refine_node(self, cell: Cell, kinds: frozenset) -> None:
        if cell.mirror is not None:
            orig = self.cells[cell.mirror[1]]
            self.refine_node(orig, kinds)
            cell.kinds = orig.kinds
        else:
            self.refine(cell, kinds)

    # ------------------------------------------------------------------ facts on numbers / identifiers
    def fresh_sym(self, base: str) -> str:
        self.sym_counter += 1
        return f"{base}{self.sym_counter}"

    def to_term(self, v):
        if isinstance(v, Num):
            return v.term
        if isinstance(v, bool):
            return A.lit(int(v))
        if isinstance(v, (int, float)):
            return A.lit(v)
        return None

    def _subst(self):
        return None

    def _canon_signed(self, term):
        """(key, flipped, const) of `term` normalised under the equalities established on this path."""
        p = A.normalize(term, self.eq_subst)
        c = A.nf_is_const(p)
        if c is not None:
            return None, False, c
        key = A.canon(p)
        neg = A.canon(A.nf_mul(A.nf_const(-1), p))
        if repr(neg) < repr(key):
            return neg, True, None
        return key, False, None

    _FLIP = {"neg": "pos", "pos": "neg", "zero": "zero"}

    def sign_query(self, term, allowed: frozenset, label: str) -> bool:
        """Is sign(term) in `allowed`?  Forks when undetermined; records the fact."""
        key, flip, c = self._canon_signed(term)
        if c is not None:
            s = "neg" if c < 0 else ("zero" if c == 0 else "pos")
            return s in allowed
        if flip:
            allowed = frozenset(self._FLIP[a] for a in allowed)
        cur = self.num_facts.get(key, frozenset(["neg", "zero", "pos"]))
        yes = cur & allowed
        no = cur - allowed
        if yes and no:
            i = self.choose(2, f"{label}", ["true", "false"])
            self._set_fact(key, yes if i == 0 else no)
            return i == 0
        return bool(yes)

    def _set_fact(self, key, allowed: frozenset) -> None:
        self.num_facts[key] = allowed
        t = A.nf_to_term(A.uncanon(key))
        self.num_fact_terms[key] = t
        if allowed == frozenset(["zero"]):
            sol = A.solve_for_symbol(t, 0, self.eq_subst)
            if sol is not None and sol[0] not in self.eq_subst:
                self.eq_subst[sol[0]] = sol[1]
                self.eq_log.append((sol[0], sol[1]))
                self._recheck_facts()

    def _recheck_facts(self) -> None:
        old = list(self.num_facts.items())
        self.num_facts = {}
        terms = self.num_fact_terms
        self.num_fact_terms = {}
        for key, allowed in old:
            t = terms.get(key)
            if t is None:
                continue
            k2, flip, c = self._canon_signed(t)
            if c is not None:
                s = "neg" if c < 0 else ("zero" if c == 0 else "pos")
                if s not in allowed:
                    raise PathInfeasible()
                if allowed == frozenset(["zero"]):
                    # keep established equalities visible to judgements
                    self.num_facts[key] = allowed
                    self.num_fact_terms[key] = t
                continue
            al = frozenset(self._FLIP[a] for a in allowed) if flip else allowed
            prev = self.num_facts.get(k2, frozenset(["neg", "zero", "pos"]))
            new = prev & al
            if not new:
                raise PathInfeasible()
            self.num_facts[k2] = new
            self.num_fact_terms[k2] = A.nf_to_term(A.uncanon(k2))

    def assume_sign(self, term, allowed: frozenset) -> None:
        """Record sign(term) in `allowed` as a fact without forking (contract facts)."""
        key, flip, c = self._canon_signed(term)
        if c is not None:
            s = "neg" if c < 0 else ("zero" if c == 0 else "pos")
            if s not in allowed:
                raise PathInfeasible()
            return
        if flip:
            allowed = frozenset(self._FLIP[a] for a in allowed)
        cur = self.num_facts.get(key, frozenset(["neg", "zero", "pos"])) & allowed
        if not cur:
            raise PathInfeasible()
        self._set_fact(key, cur)

    def ident_find(self, n: str) -> str:
        while self.ident_parent.get(n, n) != n:
            n = self.ident_parent[n]
        return n

    def ident_eq(self, a: Ident, b: Ident) -> bool:
        ra, rb = self.ident_find(a.name), self.ident_find(b.name)
        if ra == rb:
            return True
        pair = frozenset([ra, rb])
        if pair in self.ident_diseq:
            return False
        i = self.choose(2, f"{a.name}=={b.name}", ["true", "false"])
        if i == 0:
            self.ident_parent[rb] = ra
            new = set()
            for p in self.ident_diseq:
                q = frozenset(ra if x == rb else x for x in p)
                if len(q) == 1:
                    raise PathInfeasible()
                new.add(q)
            self.ident_diseq = new
            return True
        self.ident_diseq.add(pair)
        return False

    # ------------------------------------------------------------------ symbolic characters
    def new_char(self, universe: frozenset) -> SymChar:
        c = SymChar(len(self.charsets) + 1)
        self.charsets[c.cid] = frozenset(universe)
        return c

    def char_test(self, c: SymChar, pred, label: str) -> bool:
        cur = self.charsets[c.cid]
        yes = frozenset(x for x in cur if pred(x))
        no = cur - yes
        if yes and no:
            i = self.choose(2, f"{label}", ["true", "false"])
            self.charsets[c.cid] = yes if i == 0 else no
            return i == 0
        return bool(yes)

    def _fin(self, v):
        """(cid, fn, desc) for finite-set symbols whose members are not characters, else None."""
        if isinstance(v, FinExpr):
            return (v.cid, v.fn, v.desc)
        if isinstance(v, SymChar):
            members = self.charsets[v.cid]
            if members and not all(isinstance(x, str) for x in members):
                return (v.cid, (lambda x: x), f"fin{v.cid}")
        return None

    @staticmethod
    def _as_symstr(v):
        if isinstance(v, SymStr):
            return v
        if isinstance(v, SymChar):
            return SymStr((v,))
        if isinstance(v, str):
            return SymStr(tuple(v))
        return None

    def str_equal(self, a, b) -> bool:
        sa, sb = self._as_symstr(a), self._as_symstr(b)
        if len(sa.items) != len(sb.items):
            return False
        for x, y in zip(sa.items, sb.items):
            if isinstance(x, str) and isinstance(y, str):
                if x != y:
                    return False
            elif isinstance(x, FinExpr) and isinstance(y, str):
                if not self.char_test(SymChar(x.cid), lambda ch, y=y, f=x.fn: f(ch) == y, f"{x.desc}=={y!r}"):
                    return False
            elif isinstance(y, FinExpr) and isinstance(x, str):
                if not self.char_test(SymChar(y.cid), lambda ch, x=x, f=y.fn: f(ch) == x, f"{y.desc}=={x!r}"):
                    return False
            elif isinstance(x, SymChar) and isinstance(y, str):
                if not self.char_test(x, lambda ch, y=y: ch == y, f"ch{x.cid}=={y!r}"):
                    return False
            elif isinstance(y, SymChar) and isinstance(x, str):
                if not self.char_test(y, lambda ch, x=x: ch == x, f"ch{y.cid}=={x!r}"):
                    return False
            else:
                if x.cid != y.cid:
                    raise Unsupported("equality between two distinct symbolic characters")
        return True

    # ------------------------------------------------------------------ truthiness / comparison
    def truth(self, v, label: str = "truth") -> bool:
        if v is None or v is _MISSING:
            return False
        if isinstance(v, bool):
            return v
        if isinstance(v, (int, float)):
            return v != 0
        if isinstance(v, str):
            return len(v) > 0
        if isinstance(v, (Node, Cls, Fn, Bound, Builtin, Ext, Ident, Native)):
            return True
        if isinstance(v, Rec):
            m = self._dunder(v, "__bool__")
            if m is not None:
                return self.truth(self.call_function(m, [v], {}), "__bool__")
            m = self._dunder(v, "__len__")
            if m is not None:
                return self.truth(self.call_function(m, [v], {}), "__len__")
            return True
        if isinstance(v, Num):
            return self.sign_query(v.term, frozenset(["neg", "pos"]), f"nonzero({A.term_str(v.term)})")
        if isinstance(v, Tup):
            return len(v.items) > 0
        if isinstance(v, Lst):
            return len(v.items) > 0
        if isinstance(v, Dct):
            return len(v.items) > 0
        if isinstance(v, Render):
            return True
        if isinstance(v, SymStr):
            return len(v.items) > 0
        if isinstance(v, SymChar):
            f = self._fin(v)
            if f is not None:
                return self.char_test(v, lambda x: bool(x), f"truth({f[2]})")
            return True
        if isinstance(v, FinExpr):
            return self.char_test(SymChar(v.cid), lambda x: bool(v.fn(x)), f"truth({v.desc})")
        if isinstance(v, Found):
            if v.definite:
                return True
            if not v.maybe_more:
                return False
            return self.atom(f"nonempty:{v.label}")
        if isinstance(v, Opaque):
            if v.truthy is not None:
                return v.truthy
            return self.atom(f"truth:{v.tag}")
        if isinstance(v, CommonFactors):
            return True
        if isinstance(v, FactorDict):
            return self.atom(f"nonempty:factors({self._fd_str(v)})")
        if type(v).__name__ in ("MatchObj", "Regex") and type(v).__module__.endswith("regex"):
            return True
        raise Unsupported(f"truthiness of {v!r} at {self.site}")

    def known_sign(self, term):
        """The sign classes the facts of this path allow for the term, without forking (None: nothing known)."""
        try:
            key, flip, c = self._canon_signed(term)
        except Exception:
            return None
        if c is not None:
            return frozenset(["neg" if c < 0 else ("zero" if c == 0 else "pos")])
        al = self.num_facts.get(key)
        if al is None:
            return None
        return frozenset(self._FLIP[a] for a in al) if flip else frozenset(al)

    def atom(self, key: str) -> bool:
        if "stale:" in key:
            raise HistoryDependence(self.site, f"a decision depends on {key[key.index('stale:'):].split('>')[0]}, a field that "
                                               f"earlier calls assign")
        if key in self.atoms:
            return self.atoms[key]
        i = self.choose(2, key, ["true", "false"])
        self.atoms[key] = (i == 0)
        return self.atoms[key]

    def _fd_str(self, fd: FactorDict) -> str:
        t = fd.term
        return A.term_str(t) if isinstance(t, tuple) else str(t)

    def compare(self, op: ast.cmpop, a, b) -> Any:
        if isinstance(op, (ast.Is, ast.IsNot)):
            r = self._identical(a, b)
            return r if isinstance(op, ast.Is) else (not r)
        if isinstance(op, ast.NotEq):
            m = self._dunder(a, "__ne__")
            if m is not None:
                return self.truth(self.call_function(m, [a, b], {}), "__ne__")
        if isinstance(op, (ast.Eq, ast.NotEq)):
            r = self._equal(a, b)
            return r if isinstance(op, ast.Eq) else (not r)
        if isinstance(op, (ast.In, ast.NotIn)):
            r = self._contains(b, a)
            return r if isinstance(op, ast.In) else (not r)
        dn = {ast.Lt: ("__lt__", "__gt__"), ast.LtE: ("__le__", "__ge__"), ast.Gt: ("__gt__", "__lt__"),
              ast.GtE: ("__ge__", "__le__")}.get(type(op))
        if dn is not None:
            m = self._dunder(a, dn[0])
            if m is not None:
                return self.truth(self.call_function(m, [a, b], {}), dn[0])
            m = self._dunder(b, dn[1])
            if m is not None:
                return self.truth(self.call_function(m, [b, a], {}), dn[1])
        fa, fb = self._fin(a), self._fin(b)
        if (fa is not None) != (fb is not None):
            import operator as _op
            fn0 = {ast.Lt: _op.lt, ast.LtE: _op.le, ast.Gt: _op.gt, ast.GtE: _op.ge}[type(op)]
            def same_family(x, y):
                return isinstance(y, str) == isinstance(x, str)
            if fa is not None and isinstance(b, (int, float, str)):
                members = self.charsets[fa[0]]
                if all(same_family(fa[1](m), b) for m in members):
                    return self.char_test(SymChar(fa[0]), lambda x: fn0(fa[1](x), b), f"{fa[2]} cmp {b!r}")
            if fb is not None and isinstance(a, (int, float, str)):
                members = self.charsets[fb[0]]
                if all(same_family(fb[1](m), a) for m in members):
                    return self.char_test(SymChar(fb[0]), lambda x: fn0(a, fb[1](x)), f"{a!r} cmp {fb[2]}")
        if isinstance(a, (SymChar, SymStr)) or isinstance(b, (SymChar, SymStr)):
            import operator as _op
            fn = {ast.Lt: _op.lt, ast.LtE: _op.le, ast.Gt: _op.gt, ast.GtE: _op.ge}[type(op)]
            sa, sb = self._as_symstr(a), self._as_symstr(b)
            if sa is None or sb is None or len(sa.items) != 1 or len(sb.items) != 1:
                raise Unsupported(f"ordering of symbolic strings {a!r} {b!r} at {self.site}")
            x, y = sa.items[0], sb.items[0]
            sym = {ast.Lt: "<", ast.LtE: "<=", ast.Gt: ">", ast.GtE: ">="}[type(op)]
            if isinstance(x, SymChar) and isinstance(y, str):
                return self.char_test(x, lambda ch: fn(ch, y), f"ch{x.cid}{sym}{y!r}")
            if isinstance(y, SymChar) and isinstance(x, str):
                return self.char_test(y, lambda ch: fn(x, ch), f"{x!r}{sym}ch{y.cid}")
            if isinstance(x, FinExpr) and isinstance(y, str):
                return self.char_test(SymChar(x.cid), lambda ch, f=x.fn: fn(f(ch), y), f"{x.desc}{sym}{y!r}")
            if isinstance(y, FinExpr) and isinstance(x, str):
                return self.char_test(SymChar(y.cid), lambda ch, f=y.fn: fn(x, f(ch)), f"{x!r}{sym}{y.desc}")
            if isinstance(x, str) and isinstance(y, str):
                return fn(x, y)
            raise Unsupported("ordering between two symbolic characters")
        ta, tb = self.to_term(a), self.to_term(b)
        if ta is not None and tb is not None:
            d = ("sub", ta, tb)
            allowed = {ast.Lt: ["neg"], ast.LtE: ["neg", "zero"], ast.Gt: ["pos"], ast.GtE: ["pos", "zero"]}[type(op)]
            sym = {ast.Lt: "<", ast.LtE: "<=", ast.Gt: ">", ast.GtE: ">="}[type(op)]
            return self.sign_query(d, frozenset(allowed), f"{A.term_str(ta)}{sym}{A.term_str(tb)}")
        if isinstance(a, str) and isinstance(b, str):
            return {ast.Lt: a < b, ast.LtE: a <= b, ast.Gt: a > b, ast.GtE: a >= b}[type(op)]
        if isinstance(a, Opaque) or isinstance(b, Opaque):
            return self.atom(f"cmp:{type(op).__name__}:{a!r}:{b!r}")
        def family(v):
            if v is None:
                return "none"
            if isinstance(v, (bool, int, float, Num)):
                return "number"
            if isinstance(v, (str, Render, SymStr, SymChar)):
                return "str"
            if isinstance(v, Lst):
                return "set" if getattr(v, "is_set", False) else "list"
            if isinstance(v, Tup):
                return "tuple"
            if isinstance(v, Dct):
                return "dict"
            if isinstance(v, (Node, Rec)):
                return "object"
            return None
        fa_, fb_ = family(a), family(b)
        if fa_ is not None and fb_ is not None and (fa_ != fb_ or fa_ in ("none", "dict", "object")):
            # ordering between unrelated built-in kinds (list > int, None < 3, str >= 2 ...) is a TypeError in Python 3
            raise AbsRaise("TypeError", self.site, f"'{type(op).__name__}' not supported between {fa_} and {fb_}")
        raise Unsupported(f"comparison {type(op).__name__} of {a!r} and {b!r} at {self.site}")

    def _identical(self, a, b) -> bool:
        if a is None or b is None:
            if a is None and b is None:
                return True
            other = b if a is None else a
            if isinstance(other, Opaque):
                return self.atom(f"isnone:{other.tag}")
            return False
        if isinstance(a, bool) or isinstance(b, bool):
            return isinstance(a, bool) and isinstance(b, bool) and a == b
        if isinstance(a, Node) and isinstance(b, Node):
            return a.cid == b.cid
        if isinstance(a, (Rec, Lst, Dct)) or isinstance(b, (Rec, Lst, Dct)):
            return a is b
        if isinstance(a, str) and isinstance(b, str):
            return a == b
        return self._equal(a, b)

    _NODE_DUNDERS = ("__eq__", "__ne__")

    def _dunder(self, obj, name: str):
        """The user-defined special method of a plain object, or - for the comparison methods - of a tree node (forks
        over the node's kinds when only some of its classes define it), or None."""
        if isinstance(obj, Rec):
            return self.prog.find_method(obj.cls.name, name)
        if isinstance(obj, Node) and name in self._NODE_DUNDERS:
            if name not in self.prog.__dict__.setdefault("_node_dunders", {}):
                self.prog._node_dunders[name] = any(name in c.methods for c in self.prog.classes.values()
                                                    if self.prog.is_subclass(c.name, "BinaryTreeNode"))
            if not self.prog._node_dunders[name]:
                return None
            return self.dispatch_method(self.cell(obj), name)
        return None

    def _is_dataclass(self, obj) -> bool:
        if not isinstance(obj, Rec):
            return False
        for d in obj.cls.node.decorator_list:
            n = d.func if isinstance(d, ast.Call) else d
            if (isinstance(n, ast.Name) and n.id == "dataclass") or (isinstance(n, ast.Attribute) and n.attr == "dataclass"):
                return True
        return False

    def _equal(self, a, b) -> bool:
        if a is None or b is None:
            return self._identical(a, b)
        for x, y in ((a, b), (b, a)):
            m = self._dunder(x, "__eq__")
            if m is not None:
                r = self.call_function(m, [x, y], {})
                if isinstance(r, Builtin) and r.name == "NotImplemented":
                    continue
                return self.truth(r, "__eq__")
        if a is not b and self._is_dataclass(a) and isinstance(b, Rec) and b.cls is a.cls:
            return all(self._equal(a.fields.get(f), b.fields.get(f)) for f in a.cls.annotations)
        fa, fb = self._fin(a), self._fin(b)
        if fa is not None or fb is not None:
            if fa is not None and fb is None and not isinstance(b, (str, SymStr)):
                return self.char_test(SymChar(fa[0]), lambda x: fa[1](x) == b, f"{fa[2]}=={b!r}")
            if fb is not None and fa is None and not isinstance(a, (str, SymStr)):
                return self.char_test(SymChar(fb[0]), lambda x: fb[1](x) == a, f"{fb[2]}=={a!r}")
            if fa is not None and fb is not None and fa[0] == fb[0]:
                return self.char_test(SymChar(fa[0]), lambda x: fa[1](x) == fb[1](x), f"{fa[2]}=={fb[2]}")
        if isinstance(a, (SymChar, SymStr)) or isinstance(b, (SymChar, SymStr)):
            if self._as_symstr(a) is None or self._as_symstr(b) is None:
                return False
            return self.str_equal(a, b)
        if isinstance(a, Node) or isinstance(b, Node):
            return isinstance(a, Node) and isinstance(b, Node) and a.cid == b.cid
        if isinstance(a, Ident) and isinstance(b, Ident):
            return self.ident_eq(a, b)
        if isinstance(a, Ident) or isinstance(b, Ident):
            o = b if isinstance(a, Ident) else a
            me = a if isinstance(a, Ident) else b
            if isinstance(o, str):
                return self.atom(f"ident-is:{me.name}:{o}")
            if isinstance(o, Opaque):
                return self.atom(f"eq:{me.name}:{o.tag}")
            return False
        ta, tb = self.to_term(a), self.to_term(b)
        if ta is not None and tb is not None:
            if isinstance(a, (int, float)) and isinstance(b, (int, float)):
                return a == b
            return self.sign_query(("sub", ta, tb), frozenset(["zero"]),
                                   f"{A.term_str(ta)}=={A.term_str(tb)}")
        if isinstance(a, str) and isinstance(b, str):
            return a == b
        if isinstance(a, (str, Render)) and isinstance(b, (str, Render)):
            fa_, fb_ = _flatten_render(a), _flatten_render(b)
            if all(isinstance(x, str) for x in fa_ + fb_):
                return "".join(fa_) == "".join(fb_)
            if len(fa_) == len(fb_) and all(x == y for x, y in zip(fa_, fb_)):
                return True   # the same literal pieces around the same abstract pieces
            return self._render_equal(fa_, fb_, a, b)
        if isinstance(a, Tup) and isinstance(b, Tup):
            return len(a.items) == len(b.items) and all(self._equal(x, y) for x, y in zip(a.items, b.items))
        if isinstance(a, Lst) and isinstance(b, Lst):
            return len(a.items) == len(b.items) and all(self._equal(x, y) for x, y in zip(a.items, b.items))
        if isinstance(a, (Rec, Lst)) or isinstance(b, (Rec, Lst)):
            return a is b
        if isinstance(a, Opaque) or isinstance(b, Opaque):
            return self.atom(f"eq:{a!r}:{b!r}")
        if isinstance(a, Cls) and isinstance(b, Cls):
            return a.info is b.info
        if type(a) != type(b):
            return False
        raise Unsupported(f"equality of {a!r} and {b!r} at {self.site}")

    def _render_equal(self, fa_: list, fb_: list, a, b) -> bool:
        """Equality of two partly abstract strings (flattened pieces: literal text or an abstract piece such as the text of
        a number).  Decided when a literal mismatch, or a literal that cannot be the text of a number, settles it."""
        xs, ys = [t for t in fa_ if t != ""], [t for t in fb_ if t != ""]
        if len(xs) == 1 and len(ys) == 1 and all(isinstance(t, tuple) and t[0] == "opaque" and t[1].startswith("text-of-node#")
                                                  for t in (xs[0], ys[0])):
            # the printed forms of two sub-expressions nothing is known about: the same text or not, both happen
            if xs[0] == ys[0]:
                return True
            return self.choose(2, f"same-text({xs[0][1][13:]},{ys[0][1][13:]})", ["true", "false"]) == 0
        for p_, q_ in ((xs, ys), (ys, xs)):
            if len(p_) == 1 and len(q_) == 1 and isinstance(p_[0], tuple) and p_[0][0] == "num" and isinstance(q_[0], str):
                # the text of a number against a literal: equal iff the literal spells that number (int / float spelling of
                # equal values is taken to agree)
                try:
                    val = float(q_[0])
                except ValueError:
                    return False
                if val != val or val in (float("inf"), float("-inf")):
                    return False
                return self.sign_query(("sub", p_[0][1], A.lit(int(val) if val == int(val) else val)), frozenset(["zero"]),
                                       f"{A.term_str(p_[0][1])}=={q_[0]}")
        if len(xs) == len(ys) and len(xs) > 1 and self._aligned_pieces(xs, ys):
            # the same sequence of piece classes (literal text / number / identifier) with unambiguous boundaries: the
            # texts are equal iff every pair of pieces is
            for p_, q_ in zip(xs, ys):
                if isinstance(p_, str):
                    if p_ != q_:
                        return False
                elif p_[0] == "num":
                    if p_[1] != q_[1] and not self.sign_query(("sub", p_[1], q_[1]), frozenset(["zero"]),
                                                             f"{A.term_str(p_[1])}=={A.term_str(q_[1])}"):
                        return False
                elif not self.ident_eq(Ident(p_[1]), Ident(q_[1])):
                    return False
            return True
        # literal text at the end: a mismatch within the common length settles it whatever precedes
        if xs and ys and isinstance(xs[-1], str) and isinstance(ys[-1], str):
            k = min(len(xs[-1]), len(ys[-1]))
            if xs[-1][len(xs[-1]) - k:] != ys[-1][len(ys[-1]) - k:]:
                return False
        while xs or ys:
            if xs and ys and isinstance(xs[0], str) and isinstance(ys[0], str):
                k = min(len(xs[0]), len(ys[0]))
                if xs[0][:k] != ys[0][:k]:
                    return False
                xs[0], ys[0] = xs[0][k:], ys[0][k:]
                if not xs[0]:
                    xs.pop(0)
                if ys and not ys[0]:
                    ys.pop(0)
                continue
            if xs and ys and not isinstance(xs[0], str) and xs[0] == ys[0]:
                xs.pop(0)
                ys.pop(0)
                continue
            if xs and ys and isinstance(xs[0], tuple) and isinstance(ys[0], tuple) and xs[0][0] == "num" and ys[0][0] == "num" \
                    and xs[1:] == ys[1:]:
                # two number texts followed by the same rest: equal texts iff equal numbers (the int / float spelling of
                # equal values is taken to agree)
                return self.sign_query(("sub", xs[0][1], ys[0][1]), frozenset(["zero"]),
                                       f"{A.term_str(xs[0][1])}=={A.term_str(ys[0][1])}")
            done = None
            for p_, q_ in ((xs, ys), (ys, xs)):
                # "-" + text(x) against text(y), same rest: equal iff y == -x and x is not zero ("-0" is not "0")
                if len(p_) >= 2 and p_[0] == "-" and isinstance(p_[1], tuple) and p_[1][0] == "num" and q_ \
                        and isinstance(q_[0], tuple) and q_[0][0] == "num" and p_[2:] == q_[1:]:
                    if not self.sign_query(("add", p_[1][1], q_[0][1]), frozenset(["zero"]),
                                           f"{A.term_str(q_[0][1])}==-{A.term_str(p_[1][1])}"):
                        done = False
                    else:
                        done = self.sign_query(p_[1][1], frozenset(["neg", "pos"]), f"nonzero({A.term_str(p_[1][1])})")
                    break
            if done is not None:
                return done
            for p_, q_ in ((xs, ys), (ys, xs)):
                if p_ and isinstance(p_[0], tuple) and p_[0][0] == "num":
                    # the text of a number is at least one character and starts with a sign, a digit, a dot, or inf / nan
                    if not q_:
                        return False
                    if isinstance(q_[0], str):
                        lit = q_[0]
                        j = 0
                        while j < len(lit) and lit[j] in "-+0123456789.einfa":
                            j += 1
                        if j < len(lit) or len(q_) == 1:
                            # the number's text would have to be exactly lit[:j] (the next character cannot belong to it)
                            try:
                                float(lit[:j])
                            except ValueError:
                                return False
            if not xs or not ys:
                rest = xs or ys
                if all(isinstance(t, str) for t in rest):
                    return False   # literal text left over on one side only
                if any(isinstance(t, tuple) and t[0] in ("opaque", "ident", "num") for t in rest):
                    return False   # the text of a number, an identifier or a drawn symbol is never empty
            if any(isinstance(t, tuple) and t[0] in ("opaque", "ident") for t in xs[:1] + ys[:1]):
                # an unknown text against other text: both answers are possible
                return self.atom(f"same-text:{xs[:2]!r}:{ys[:2]!r}")
            if any(isinstance(t, tuple) and t[0] == "opaque" and t[1].startswith("text-of-node#") for t in xs + ys):
                # the printed form of a sub-expression nothing is known about takes part: both answers are possible
                return self.atom(f"same-text:{xs[:3]!r}:{ys[:3]!r}")
            raise Unsupported(f"equality of partly abstract strings {a!r} and {b!r} at {self.site}")
        return True

    @staticmethod
    def _aligned_pieces(xs: list, ys: list) -> bool:
        def cls(t):
            if isinstance(t, str):
                return "lit"
            return t[0] if isinstance(t, tuple) and t[0] in ("num", "ident") else None
        cx, cy = [cls(t) for t in xs], [cls(t) for t in ys]
        if cx != cy or None in cx:
            return False
        for seq in (xs, ys):
            for i in range(len(seq) - 1):
                a_, b_ = seq[i], seq[i + 1]
                ca, cb = cls(a_), cls(b_)
                if ca == cb:
                    return False
                for lit_, other, edge in ((a_, cb, -1), (b_, ca, 0)):
                    if isinstance(lit_, str):
                        ch = lit_[edge]
                        if other == "num" and (ch.isdigit() or ch in ".eE+-" or ch.isalpha()):
                            return False
                        if other == "ident" and (ch.isalpha() or ch == "_" or ch.isdigit()):
                            return False
        return True

    def _contains(self, container, x) -> bool:
        m = self._dunder(container, "__contains__")
        if m is not None:
            return self.truth(self.call_function(m, [container, x], {}), "__contains__")
        if isinstance(container, (Lst, Tup)):
            return any((isinstance(x, Node) and isinstance(y, Node) and x.cid == y.cid) or self._equal(x, y)
                       for y in container.items)
        if isinstance(container, str) and isinstance(x, str):
            return x in container
        if isinstance(container, str) and isinstance(x, (SymChar, SymStr)):
            sx = self._as_symstr(x)
            if len(sx.items) == 1 and isinstance(sx.items[0], SymChar):
                return self.char_test(sx.items[0], lambda ch: ch in container, f"ch{sx.items[0].cid} in {container!r}")
            raise Unsupported("substring test on symbolic strings")
        if isinstance(container, Dct):
            if any(self._equal(x, k) for k in container.items):
                return True
            self._stale_read(container, x)
            return False
        if isinstance(container, Opaque) or isinstance(x, Opaque):
            return self.atom(f"in:{x!r}:{container!r}")
        raise Unsupported(f"membership {x!r} in {container!r} at {self.site}")

    # ------------------------------------------------------------------ isinstance
    def isinstance_(self, v, clsv) -> bool:
        if isinstance(clsv, Tup):
            classes = list(clsv.items)
        else:
            classes = [clsv]
        names = []
        for c in classes:
            if isinstance(c, Cls):
                names.append(c.info.name)
            elif isinstance(c, Builtin):
                names.append("builtin:" + c.name)
            elif isinstance(c, (Node, Rec, str, int, float, Num, Lst, Dct)) or c is None:
                raise AbsRaise("TypeError", self.site, "isinstance() arg 2 must be a type, a tuple of types, or a union")
            else:
                raise Unsupported(f"isinstance against {c!r} at {self.site}")
        if isinstance(v, Node):
            cell = self.cell(v)
            kinds = self.kinds_of(cell)
            sub = frozenset(k for k in kinds if any(self.prog.is_subclass(k, n) for n in names if not n.startswith("builtin:")))
            if sub == kinds:
                return True
            if not sub:
                return False
            i = self.choose(2, f"isinstance({cell.cid},{'|'.join(n.replace('Expression', '') for n in names)})",
                            ["true", "false"])
            self.refine_node(cell, sub if i == 0 else kinds - sub)
            return i == 0
        if v is None:
            return False
        if isinstance(v, Rec):
            return any(self.prog.is_subclass(v.cls.name, n) for n in names)
        if isinstance(v, Tup) and v.cls is not None:
            return v.cls.name in names or "builtin:tuple" in names
        if isinstance(v, str):
            return "builtin:str" in names
        if isinstance(v, bool):
            return "builtin:bool" in names or "builtin:int" in names
        if isinstance(v, int):
            return "builtin:int" in names
        if isinstance(v, float):
            return "builtin:float" in names
        if isinstance(v, Lst):
            return "builtin:list" in names
        if isinstance(v, Tup):
            return "builtin:tuple" in names
        if isinstance(v, Num):
            return any(n in ("builtin:int", "builtin:float") for n in names) and self.atom(f"numtype:{names}")
        if isinstance(v, Opaque):
            return self.atom(f"isinstance:{v.tag}:{names}")
        return False

    # ------------------------------------------------------------------ calls
    def call_function(self, info: FuncInfo, args: List[Any], kwargs: Dict[str, Any], closure: Optional[Env] = None,
                      nohook: bool = False):
        key = info.where
        hook = None if nohook else (self.hooks.get(key) or self.hooks.get(info.qualname))
        if hook is not None:
            r = hook(self, info, args, kwargs)
            if r is not NotImplemented:
                return r
        if self.depth >= self.config.get("max_inline", self.MAX_INLINE):
            raise BoundExceeded(f"inline depth at {key}")
        if getattr(info, "is_generator", False):
            raise Unsupported(f"generator / coroutine {key} is not modelled")
        if getattr(info, "unknown_decorators", None):
            raise Unsupported(f"decorator {info.unknown_decorators} on {key} is not modelled")
        env = Env(self, info, info.module, closure)
        self._bind(info, env, args, kwargs)
        self.depth += 1
        self.call_stack.append(info.qualname)
        saved_site = self.site
        try:
            self.exec_block(info.node.body, env)
            ret = None
        except _Return as r:
            ret = r.value
        finally:
            self.depth -= 1
            self.call_stack.pop()
            self.site = saved_site
        return ret

    def _bind(self, info: FuncInfo, env: Env, args: List[Any], kwargs: Dict[str, Any]) -> None:
        a = info.node.args
        params = [p.arg for p in a.posonlyargs + a.args]
        defaults = a.defaults
        ndef = len(defaults)
        if len(args) > len(params):
            if a.vararg is None:
                raise AbsRaise("TypeError", info.where, "too many positional arguments")
        if a.vararg is not None:
            env.vars[a.vararg.arg] = Tup(args[len(params):])
        for i, p in enumerate(params):
            if i < len(args):
                env.vars[p] = args[i]
            elif p in kwargs:
                env.vars[p] = kwargs.pop(p)
            else:
                di = i - (len(params) - ndef)
                if di >= 0:
                    env.vars[p] = self._eval_retained(defaults[di], Env(self, None, info.module))
                else:
                    raise AbsRaise("TypeError", info.where, f"missing argument {p}")
        for j, p in enumerate(a.kwonlyargs):
            if p.arg in kwargs:
                env.vars[p.arg] = kwargs.pop(p.arg)
            elif a.kw_defaults[j] is not None:
                env.vars[p.arg] = self._eval_retained(a.kw_defaults[j], Env(self, None, info.module))
            else:
                raise AbsRaise("TypeError", info.where, f"missing kw argument {p.arg}")
        if kwargs:
            if a.kwarg is not None:
                env.vars[a.kwarg.arg] = Dct({k: v for k, v in kwargs.items()})
            else:
                raise AbsRaise("TypeError", info.where, f"unexpected kwargs {list(kwargs)}")
        elif a.kwarg is not None:
            env.vars[a.kwarg.arg] = Dct()

    def _eval_retained(self, e: ast.expr, env: "Env"):
        """Evaluate an expression whose value outlives the analysed call (default argument values, module-level
        and class-level objects): nodes allocated here are shared by every call."""
        if isinstance(e, ast.Constant):
            return e.value
        self.retained_mode += 1
        try:
            return self.eval(e, env)
        finally:
            self.retained_mode -= 1

    def instantiate(self, cinfo: ClassInfo, args, kwargs):
        prog = self.prog
        if prog.is_subclass(cinfo.name, "BinaryTreeNode"):
            cell = self.new_cell(frozenset([cinfo.name]), True, "alloc")
            cell.alloc_site = self.site
            cell.updepth = 0
            self.events.append(("alloc", cell.cid, cinfo.name, self.site, tuple(self.call_stack)))
            obj: Any = Node(cell.cid)
        elif any(b == "NamedTuple" for b in cinfo.base_names):
            fields = list(cinfo.annotations.keys())
            vals = list(args)
            for f in fields[len(vals):]:
                if f in kwargs:
                    vals.append(kwargs[f])
                else:
                    raise AbsRaise("TypeError", self.site, f"NamedTuple {cinfo.name} missing {f}")
            return Tup(vals, cinfo)
        elif prog.is_subclass(cinfo.name, "Exception") or any(b in ("Exception", "ValueError") for b in cinfo.base_names):
            r = Rec(cinfo)
            return r
        else:
            obj = Rec(cinfo)
            obj.retained = self.retained_mode > 0
        init = prog.find_method(cinfo.name, "__init__")
        if init is not None:
            self.call_function(init, [obj] + list(args), dict(kwargs))
        elif args or kwargs:
            raise AbsRaise("TypeError", self.site, f"{cinfo.name}() takes no arguments")
        return obj

    def call(self, f, args: List[Any], kwargs: Dict[str, Any]):
        if isinstance(f, Fn):
            return self.call_function(f.info, args, kwargs, f.closure)
        if isinstance(f, Bound):
            kind = getattr(f.info, "kind", None)
            if kind == "static":
                return self.call_function(f.info, list(args), kwargs)
            if kind == "class" and not isinstance(f.selfv, Cls):
                return self.call_function(f.info, [self.getattr_(f.selfv, "__class__")] + args, kwargs)
            return self.call_function(f.info, [f.selfv] + args, kwargs)
        if isinstance(f, Rec):
            m = self.prog.find_method(f.cls.name, "__call__")
            if m is not None:
                return self.call_function(m, [f] + args, kwargs)
        if isinstance(f, Cls):
            return self.instantiate(f.info, args, kwargs)
        if isinstance(f, Builtin):
            return self.call_builtin(f.name, args, kwargs)
        if isinstance(f, Ext):
            return self.call_ext(f.path, args, kwargs)
        if isinstance(f, Native):
            return f.fn(self, list(args), dict(kwargs))
        if isinstance(f, Opaque):
            h = self.hooks.get("opaque-call")
            if h is not None:
                return h(self, f, args, kwargs)
            raise Unsupported(f"call of opaque value {f!r} at {self.site}")
        raise Unsupported(f"call of {f!r} at {self.site}")

    def call_builtin(self, name: str, args, kwargs):
        if name == "isinstance":
            return self.isinstance_(args[0], args[1])
        if name == "len":
            v = args[0]
            if isinstance(v, (Lst, Tup)):
                return len(v.items)
            if isinstance(v, str):
                return len(v)
            if isinstance(v, SymStr):
                return len(v.items)
            if isinstance(v, SymChar):
                return 1
            if isinstance(v, Dct):
                return len(v.items)
            if isinstance(v, Found):
                if not v.maybe_more:
                    return len(v.definite)
                return Opaque(f"len:{v.label}:{len(v.definite)}")
            if isinstance(v, CommonFactors):
                return Opaque("len:common:1")
            m = self._dunder(v, "__len__")
            if m is not None:
                return self.call_function(m, [v], {})
            raise Unsupported(f"len of {v!r} at {self.site}")
        if name == "bool":
            return self.truth(args[0]) if args else False
        if name == "cast":
            return args[1]
        if name == "print":
            return None
        if name == "str":
            if args and isinstance(args[0], (SymStr, SymChar)):
                return self._as_symstr(args[0])
            return self.to_render(args[0]) if args else ""
        if name == "repr":
            return Opaque("repr")
        if name == "type":
            v = args[0]
            if isinstance(v, (Node, Rec)):
                return self.getattr_(v, "__class__")
            return Opaque("type")
        if name == "list":
            if not args:
                return Lst([])
            v = args[0]
            if isinstance(v, (Lst, Tup)):
                return Lst(list(v.items))
            if isinstance(v, str):
                return Lst(list(v))
            if isinstance(v, (SymStr, SymChar)):
                return Lst(list(self._as_symstr(v).items))
            if isinstance(v, Dct):
                return Lst(list(v.items))
            raise Unsupported(f"list({v!r}) at {self.site}")
        if name == "tuple":
            v = args[0]
            if isinstance(v, (Lst, Tup)):
                return Tup(v.items)
        if name == "set":
            out = Lst([])
            out.is_set = True
            if args:
                v = args[0]
                if not isinstance(v, (Lst, Tup)):
                    raise Unsupported(f"set({v!r}) at {self.site}")
                for x in v.items:
                    if not self._contains(out, x):
                        out.items.append(x)
            return out
        if name in ("int", "float") and args and isinstance(args[0], Opaque) and args[0].tag.startswith("text:"):
            # the text of a literal, kept as a symbol: the conversion is recorded by name, so that an analysis can tell the
            # exact integer conversion from a detour through a float
            tag = args[0].tag
            if self.atom(f"malformed:{tag}"):
                raise AbsRaise("ValueError", self.site, f"could not convert string to {name}")
            if name == "int" and (self.atom(f"in:'.':{args[0]!r}") or self.atom(f"in:'e':{args[0]!r}")):
                # int("5.0") / int("1e3") raise even though the text is a well-formed number
                raise AbsRaise("ValueError", self.site, "invalid literal for int() with base 10")
            return Num(("fn", f"{name}_of_text", ("atom", tag)))
        if name == "int":
            v = args[0]
            if isinstance(v, (int, float)):
                return int(v)
            if isinstance(v, Num):
                return Num(("fn", "int", v.term))
            if isinstance(v, str):
                try:
                    return int(v)
                except ValueError:
                    raise AbsRaise("ValueError", self.site, "int()")
        if name == "float":
            v = args[0]
            if isinstance(v, (int, float)):
                return float(v)
            if isinstance(v, Num):
                return v
            if isinstance(v, str):
                try:
                    return float(v)
                except ValueError:
                    raise AbsRaise("ValueError", self.site, "float()")
        if name == "abs":
            v = args[0]
            if isinstance(v, (int, float)):
                return abs(v)
            if isinstance(v, Num):
                ks = self.known_sign(v.term)
                if ks is not None and ks <= frozenset(["pos", "zero"]):
                    return v                       # |x| is x for a value already known non-negative
                if ks is not None and ks <= frozenset(["neg"]):
                    return Num(("neg", v.term))
                return Num(("fn", "abs", v.term))
        if name in ("min", "max") and not kwargs:
            vals = args[0].items if len(args) == 1 and isinstance(args[0], (Lst, Tup)) else args
            if all(isinstance(x, (int, float)) and not isinstance(x, bool) for x in vals) and vals:
                return min(vals) if name == "min" else max(vals)
            if len(vals) == 2 and all(self.to_term(x) is not None for x in vals):
                a, b = vals
                le = self.sign_query(("sub", self.to_term(a), self.to_term(b)), frozenset(["neg", "zero"]),
                                     f"{A.term_str(self.to_term(a))}<={A.term_str(self.to_term(b))}")
                if name == "min":
                    return a if le else b
                return b if le else a
        if name == "range":
            if all(isinstance(x, int) for x in args):
                return Lst(list(range(*args)))
        if name == "enumerate":
            start = args[1] if len(args) > 1 else kwargs.get("start", 0)
            if not isinstance(start, int):
                raise Unsupported(f"enumerate with abstract start at {self.site}")
            return self._one_shot([Tup((i, x)) for i, x in enumerate(self.iter_items(args[0]), start)])
        if name == "getattr":
            obj, attr = args[0], args[1]
            if isinstance(attr, str):
                v = self.getattr_(obj, attr, default=(args[2] if len(args) > 2 else _MISSING))
                return v
        if name == "hasattr":
            obj, attr = args[0], args[1]
            if isinstance(attr, str):
                v = self.getattr_(obj, attr, default=_MISSING, probe=True)
                return v is not _MISSING
        if name in ("all", "any"):
            v = args[0]
            if isinstance(v, (Lst, Tup)):
                for x in v.items:
                    t = self.truth(x, name)
                    if name == "all" and not t:
                        return False
                    if name == "any" and t:
                        return True
                return name == "all"
        if name == "sorted":
            return Lst(self._sorted(self.iter_items(args[0]), kwargs.get("key"), kwargs.get("reverse", False)))
        if name in ("min", "max") and (kwargs.get("key") is not None or "default" in kwargs):
            vals = self.iter_items(args[0]) if len(args) == 1 else list(args)
            if not vals:
                if "default" in kwargs:
                    return kwargs["default"]
                raise AbsRaise("ValueError", self.site, f"{name}() arg is an empty sequence")
            keyed = self._sorted(vals, kwargs.get("key"), False)
            # min returns the first minimal element, max the first maximal one
            if name == "min":
                return keyed[0]
            kf = kwargs.get("key")
            best = keyed[-1]
            kb = self._concrete_key(best, kf)
            for x in vals:
                if self._concrete_key(x, kf) == kb:
                    return x
            return best
        if name == "zip":
            seqs = [self.iter_items(a) for a in args]
            if kwargs.get("strict") and len({len(q) for q in seqs}) > 1:
                raise AbsRaise("ValueError", self.site, "zip() arguments have different lengths")
            return self._one_shot([Tup(t) for t in zip(*seqs)])
        if name == "reversed":
            return self._one_shot(list(reversed(self.iter_items(args[0]))))
        if name == "map":
            seqs = [self.iter_items(a) for a in args[1:]]
            return self._one_shot([self.call(args[0], list(t), {}) for t in zip(*seqs)])
        if name == "filter":
            f = args[0]
            return self._one_shot([x for x in self.iter_items(args[1])
                                   if self.truth(x if f is None else self.call(f, [x], {}), "filter")])
        if name == "sum":
            total: Any = args[1] if len(args) > 1 else kwargs.get("start", 0)
            for x in self.iter_items(args[0]):
                total = self.binop(ast.Add(), total, x)
            return total
        if name in ("chr", "ord", "round", "divmod", "pow", "bin", "hex", "oct"):
            if all(isinstance(a, (int, float, str)) and not isinstance(a, bool) for a in args) and not kwargs:
                import builtins as _b
                try:
                    r = getattr(_b, name)(*args)
                except (ValueError, TypeError, ZeroDivisionError, OverflowError) as ex:
                    raise AbsRaise(type(ex).__name__, self.site, str(ex))
                return Tup(r) if isinstance(r, tuple) else r
            if name == "round" and len(args) == 1 and self.to_term(args[0]) is not None:
                return Num(("fn", "round", self.to_term(args[0])))
            if name == "ord" and isinstance(args[0], SymChar) and self._fin(args[0]) is None:
                return FinExpr(args[0].cid, ord, f"ord(ch{args[0].cid})")
        if name == "iter" and len(args) == 1:
            g = Lst(self.iter_items(args[0]))
            g.is_gen = True
            return g
        if name == "next" and args and isinstance(args[0], Lst) and getattr(args[0], "is_gen", False):
            if args[0].items:
                return args[0].items.pop(0)
            if len(args) > 1:
                return args[1]
            raise AbsRaise("StopIteration", self.site, "next() on an exhausted iterator")
        if name == "vars" and len(args) == 1 and isinstance(args[0], (Node, Rec)):
            # the instance dictionary: the attributes the __init__ chain of the object's class assigns on self, plus what
            # was stored on it since (read through the ordinary field access, so lazily materialised payloads are included)
            obj = args[0]
            names: List[str] = []
            if isinstance(obj, Node):
                cell = self.cell(obj)
                kinds = sorted(self.kinds_of(cell))
                if len(kinds) != 1:
                    lst = kinds
                    i = self.choose(len(lst), f"class({cell.cid})", [k.replace("Expression", "") for k in lst])
                    self.refine_node(cell, frozenset([lst[i]]))
                    kinds = [lst[i]]
                cname = kinds[0]
                extra = [k for k in cell.cur if not k.startswith("__")]
            else:
                cname = obj.cls.name
                extra = list(obj.fields)
            if self._slots_of(cname) is not None:
                raise AbsRaise("TypeError", self.site, "vars() argument must have __dict__ attribute")
            for c in reversed(self.prog.mro(self.prog.cls(cname))):
                m = c.methods.get("__init__")
                if m is None:
                    continue
                for n in ast.walk(m.node):
                    if isinstance(n, (ast.Assign, ast.AnnAssign)):
                        for t in (n.targets if isinstance(n, ast.Assign) else [n.target]):
                            if isinstance(t, ast.Attribute) and isinstance(t.value, ast.Name) and t.value.id == "self" \
                                    and t.attr not in names:
                                names.append(t.attr)
            for k in extra:
                if k not in names:
                    names.append(k)
            d = Dct()
            for k in names:
                v = self.getattr_(obj, k, default=_MISSING)
                if v is not _MISSING and not isinstance(v, (Bound, Fn)):
                    d.items[k] = v
            return d
        if name == "setattr" and len(args) == 3 and isinstance(args[1], str):
            self.setattr_(args[0], args[1], args[2])
            return None
        if name == "delattr":
            raise Unsupported(f"delattr at {self.site}")
        if name == "frozenset":
            return self.call_builtin("set", args, kwargs)
        if name == "dict":
            d = Dct()
            if args:
                src = args[0]
                if isinstance(src, Dct):
                    d.items.update(src.items)
                else:
                    for pair in self.iter_items(src):
                        if not (isinstance(pair, (Tup, Lst)) and len(pair.items) == 2):
                            raise AbsRaise("TypeError", self.site, "dict() sequence element is not a pair")
                        d.items[pair.items[0]] = pair.items[1]
            d.items.update(kwargs)
            return d
        if name == "super":
            raise Unsupported("super() outside method")
        if name == "id":
            return Opaque("id()")
        raise Unsupported(f"builtin {name}({args!r}) at {self.site}")

    @staticmethod
    def _one_shot(items: list) -> "Lst":
        g = Lst(items)
        g.is_gen = True
        return g

    def _concrete_key(self, x, keyfn):
        k = x if keyfn is None else self.call(keyfn, [x], {})

        def conc(v):
            if isinstance(v, (int, float, str)):
                return v
            if isinstance(v, Tup):
                return tuple(conc(i) for i in v.items)
            raise Unsupported(f"ordering by an abstract key {v!r} at {self.site}")
        return conc(k)

    def _sorted(self, items: list, keyfn, reverse) -> list:
        if not isinstance(reverse, bool):
            reverse = self.truth(reverse, "reverse")
        try:
            keys = [self._concrete_key(x, keyfn) for x in items]
        except Unsupported:
            if len(items) > 6:
                raise
            # abstract keys (number symbols ...): a stable insertion sort whose only primitive is `<`, as list.sort
            # uses it; every comparison the facts do not settle forks the path
            ks = [x if keyfn is None else self.call(keyfn, [x], {}) for x in items]
            order: List[int] = []
            for i in range(len(items)):
                j = len(order)
                while j > 0 and self.truth(self.compare(ast.Lt() if not reverse else ast.Gt(), ks[i], ks[order[j - 1]]), "sort"):
                    j -= 1
                order.insert(j, i)
            return [items[i] for i in order]
        try:
            order = sorted(range(len(items)), key=lambda i: keys[i], reverse=reverse)
        except TypeError as ex:
            raise AbsRaise("TypeError", self.site, str(ex))
        return [items[i] for i in order]

    def call_ext(self, path: str, args, kwargs):
        h = self.hooks.get("ext:" + path)
        if h is not None:
            return h(self, path, args, kwargs)
        self.events.append(("ext", path, self.site))
        if path in ("numpy.min", "numpy.max"):
            v = args[0]
            if isinstance(v, CommonFactors):
                return v.g
            if isinstance(v, (Lst, Tup)) and v.items and all(isinstance(x, (int, float)) for x in v.items):
                return min(v.items) if path.endswith("min") else max(v.items)
        if path in ("math.isnan", "math.isfinite", "math.isinf", "numpy.isnan", "numpy.isfinite", "numpy.isinf"):
            import math as _m
            v = args[0]
            fn = path.split(".")[1]
            if isinstance(v, (int, float)):
                return getattr(_m, fn)(v)
            t = self.to_term(v)
            if t is not None and ("atom", "nan") not in A.symbols(t) and not any(
                    s[0] == "atom" and str(s[1]).startswith("nonfinite") for s in A.symbols(t)):
                # number symbols stand for finite constants (non-finite constants are outside the analysed domain)
                return fn == "isfinite"
            return self.atom(f"{fn}:{v!r}")
        if path in ("typing.cast",):
            return args[1]
        if path == "numpy.format_float_positional":
            v = args[0]
            t = self.to_term(v)
            return Render((("num", t),)) if t is not None else Opaque("fmt")
        if path == "colr.color":
            return args[0]
        if path in ("numpy.add", "numpy.subtract", "numpy.multiply", "numpy.divide", "numpy.true_divide") and len(args) == 2:
            a, b = self.to_term(args[0]), self.to_term(args[1])
            if a is not None and b is not None:
                op = {"add": "add", "subtract": "sub", "multiply": "mul", "divide": "div", "true_divide": "div"}[path.split(".")[1]]
                # the value for numbers in range; that these routines are fixed width is a fact of the external table
                # (the call itself is on record in the event log)
                return Num((op, a, b))
        if path == "numpy.negative" and len(args) == 1 and self.to_term(args[0]) is not None:
            return Num(("neg", self.to_term(args[0])))
        if path in ("numpy.asarray", "numpy.array", "numpy.isscalar", "numpy.ndim") and args:
            if path == "numpy.isscalar":
                return not isinstance(args[0], (Lst, Tup, Dct))
            if path == "numpy.ndim":
                return 0 if not isinstance(args[0], (Lst, Tup)) else 1
            return args[0]
        if path == "numpy.power":
            a, b = self.to_term(args[0]), self.to_term(args[1])
            if a is not None and b is not None:
                return Num(("pow", a, b))
        if path == "numpy.absolute":
            a = self.to_term(args[0])
            if a is not None:
                return Num(("fn", "abs", a))
        if path == "math.factorial":
            a = self.to_term(args[0])
            if a is not None:
                return Num(("fn", "factorial", a))
        if path == "operator.itemgetter" and args and all(isinstance(a, (int, str)) for a in args):
            keys = list(args)

            def getter(it2, a2, k2):
                vals = [it2._subscript(a2[0], k) for k in keys]
                return vals[0] if len(vals) == 1 else Tup(vals)
            return Native(f"itemgetter{tuple(keys)!r}", getter)
        if path == "operator.attrgetter" and args and all(isinstance(a, str) and "." not in a for a in args):
            names = list(args)

            def agetter(it2, a2, k2):
                vals = [it2.getattr_(a2[0], n) for n in names]
                return vals[0] if len(vals) == 1 else Tup(vals)
            return Native(f"attrgetter{tuple(names)!r}", agetter)
        if path == "itertools.groupby":
            items = self.iter_items(args[0])
            keyfn = args[1] if len(args) > 1 else kwargs.get("key")
            groups: List[Tuple[Any, List[Any]]] = []
            for x in items:
                k = x if keyfn is None else self.call(keyfn, [x], {})
                if groups and self._equal(groups[-1][0], k):
                    groups[-1][1].append(x)
                else:
                    groups.append((k, [x]))
            return Lst([Tup((k, Lst(g))) for k, g in groups])
        if path == "itertools.chain":
            out_items: List[Any] = []
            for a in args:
                out_items.extend(self.iter_items(a))
            return Lst(out_items)
        if path in ("re.compile", "re.match", "re.fullmatch", "re.search"):
            from .regex import RegexUnsupported, get_regex
            pat = args[0] if args else kwargs.get("pattern")
            if path == "re.compile":
                flags = args[1] if len(args) > 1 else kwargs.get("flags", 0)
            else:
                flags = args[2] if len(args) > 2 else kwargs.get("flags", 0)
            if isinstance(pat, str) and isinstance(flags, int):
                try:
                    rx = get_regex(pat, int(flags))
                except RegexUnsupported as e:
                    raise Unsupported(f"regular expression {pat!r}: {e} at {self.site}")
                if path == "re.compile":
                    return rx
                return self._regex_call(rx, path[3:], [args[1] if len(args) > 1 else kwargs.get("string")], {})
        if path.startswith("re.") and path[3:].isupper():
            import re as _re
            if hasattr(_re, path[3:]):
                return int(getattr(_re, path[3:]))
        raise Unsupported(f"external call {path} at {self.site}")

    # ------------------------------------------------------------------ regular expressions over symbolic strings
    def _regex_call(self, rx, method: str, args, kwargs):
        from .regex import MatchObj, RegexUnsupported
        subject = args[0] if args else kwargs.get("string")
        ss = self._as_symstr(subject)
        if ss is None:
            raise Unsupported(f"regex {method} on {subject!r} at {self.site}")
        items = ss.items
        pos = args[1] if len(args) > 1 else kwargs.get("pos", 0)
        endpos = args[2] if len(args) > 2 else kwargs.get("endpos")
        if not isinstance(pos, int) or not (endpos is None or isinstance(endpos, int)):
            raise Unsupported(f"regex {method} with abstract position at {self.site}")
        pos = max(0, min(pos, len(items)))
        if all(isinstance(x, str) and len(x) == 1 for x in items) and method in ("match", "fullmatch", "search"):
            # a fully concrete subject: the library's own engine gives the answer (the matcher below is for symbolic text)
            import re as _re
            text_ = "".join(items)
            m_ = getattr(_re.compile(rx.pattern, rx.flags), method)(text_, pos, len(text_) if endpos is None else endpos)
            if m_ is None:
                return None
            groups_ = [None] + [m_.span(k) if m_.span(k) != (-1, -1) else None for k in range(1, (m_.re.groups or 0) + 1)]
            return MatchObj(rx, items, m_.start(), m_.end(), groups_)

        def tester(i, pred, label):
            x = items[i]
            if isinstance(x, str):
                return bool(pred(x))
            if isinstance(x, SymChar):
                return self.char_test(x, pred, f"ch{x.cid} matches {label}")
            if isinstance(x, FinExpr):
                return self.char_test(SymChar(x.cid), lambda m, f=x.fn: pred(f(m)), f"{x.desc} matches {label}")
            raise Unsupported(f"regex over {x!r} at {self.site}")
        try:
            if method in ("match", "fullmatch"):
                r = rx.run(len(items), pos, tester, full=(method == "fullmatch"), endpos=endpos)
                start = pos
            elif method == "search":
                r = None
                start = pos
                for start in range(pos, len(items) + 1):
                    r = rx.run(len(items), start, tester, endpos=endpos)
                    if r is not None:
                        break
            else:
                raise Unsupported(f"regex method {method} at {self.site}")
        except RegexUnsupported as e:
            raise Unsupported(f"regular expression {rx.pattern!r}: {e} at {self.site}")
        if r is None:
            return None
        return MatchObj(rx, items, start, r[0], r[1])

    def _match_call(self, m, method: str, args):
        def text(span):
            if span is None:
                return None
            part = m.subject[span[0]:span[1]]
            return "".join(part) if all(isinstance(x, str) for x in part) else SymStr(tuple(part))
        if method == "group":
            ks = args or [0]
            if not all(isinstance(k, int) for k in ks):
                raise Unsupported(f"named / abstract group at {self.site}")
            try:
                vals = [text(m.span(k)) for k in ks]
            except IndexError:
                raise AbsRaise("IndexError", self.site, "no such group")
            return vals[0] if len(vals) == 1 else Tup(tuple(vals))
        if method == "groups":
            return Tup(tuple(text(sp) for sp in m.spans[1:]))
        if method in ("start", "end", "span"):
            k = args[0] if args else 0
            try:
                sp = m.span(k)
            except IndexError:
                raise AbsRaise("IndexError", self.site, "no such group")
            sp = sp or (-1, -1)
            return sp[0] if method == "start" else (sp[1] if method == "end" else Tup(sp))
        raise Unsupported(f"match method {method} at {self.site}")

    # ------------------------------------------------------------------ attribute access
    def getattr_(self, obj, attr: str, default=_MISSING, probe: bool = False):
        if attr == "__dict__":
            raise Unsupported(f"__dict__ of {obj!r} at {self.site}: reflective access is not modelled")
        if isinstance(obj, Node):
            cell = self.cell(obj)
            if attr == "__class__":
                ks = self.kinds_of(cell)
                if len(ks) > 1:
                    lst = sorted(ks)
                    i = self.choose(len(lst), f"class({cell.cid})", [k.replace("Expression", "") for k in lst])
                    self.refine_node(cell, frozenset([lst[i]]))
                return Cls(self.prog.cls(next(iter(self.kinds_of(cell)))))
            # instance attribute first (properties are class-level descriptors and win over instance dict,
            # but no class here defines a property that is also stored on the instance)
            res = self._resolve_class_attr(cell, attr)
            if res is not None and res[0] == "property":
                return self.call_function(res[1], [obj], {})
            v = self.read_field(cell, attr)
            if v is not _MISSING:
                return v
            if res is not None:
                if res[0] == "method":
                    return Bound(obj, res[1])
                if res[0] == "classattr":
                    return res[1]
            if default is not _MISSING or probe:
                return default
            raise AbsRaise("AttributeError", self.site, f"{cell!r} has no attribute {attr}")
        if isinstance(obj, Rec):
            if attr in obj.fields:
                if obj.retained and self.retained_mode == 0 and attr not in obj.touched \
                        and self.config.get("model_history", True) and attr in self._call_written_fields(obj.cls):
                    obj.touched.add(attr)
                    # a scalar field that calls (not only __init__) assign: it may still hold what an earlier call left
                    if not isinstance(obj.fields[attr], (Dct, Lst)) and self.choose(
                            2, f"{obj.cls.name}.{attr}", ["as-initialised", "left-by-an-earlier-call"]) == 1:
                        obj.fields[attr] = Opaque(f"stale:{obj.cls.name}.{attr}")
                return obj.fields[attr]
            if attr == "__class__":
                return Cls(obj.cls)
            m = self.prog.find_method(obj.cls.name, attr)
            if m is not None:
                if m.is_property:
                    return self.call_function(m, [obj], {})
                return Bound(obj, m)
            ca = self.prog.find_class_attr(obj.cls.name, attr)
            if ca is not None:
                return self.eval(ca[1], Env(self, None, ca[0].module))
            if default is not _MISSING or probe:
                return default
            raise AbsRaise("AttributeError", self.site, f"{obj.cls.name} object has no attribute {attr}")
        if isinstance(obj, Tup) and obj.cls is not None:
            fields = list(obj.cls.annotations.keys())
            if attr in fields:
                return obj.items[fields.index(attr)]
            raise AbsRaise("AttributeError", self.site, f"{obj.cls.name} has no field {attr}")
        if isinstance(obj, Cls):
            if attr == "__name__":
                return obj.info.name
            m = self.prog.find_method(obj.info.name, attr)
            if m is not None:
                if getattr(m, "kind", None) == "class":
                    return Bound(obj, m)
                return Fn(m)
            ca = self.prog.find_class_attr(obj.info.name, attr)
            if ca is not None:
                key = (obj.info.name, attr)
                for w in reversed(self.global_writes):
                    if w[0] == key:
                        return w[1]
                try:
                    return const_fold(self.prog, ca[0].module, ca[1])
                except ValueError:
                    return self.eval(ca[1], Env(self, None, ca[0].module))
            raise AbsRaise("AttributeError", self.site, f"class {obj.info.name} has no attribute {attr}")
        if isinstance(obj, SuperV):
            selfv = obj.selfv
            if isinstance(selfv, Node):
                cell = self.cell(selfv)
                ks = sorted(self.kinds_of(cell))
                targets = {}
                for k in ks:
                    mm = self.prog.find_method(k, attr, after=obj.after)
                    targets.setdefault(id(mm), []).append(k)
                if len(targets) > 1:
                    keys = list(targets)
                    i = self.choose(len(keys), f"super-dispatch({cell.cid}).{attr}",
                                    ["|".join(x.replace("Expression", "") for x in targets[t]) for t in keys])
                    self.refine_node(cell, frozenset(targets[keys[i]]))
                cname = sorted(self.kinds_of(cell))[0]
            else:
                cname = self._class_name_of(selfv)
            m = self.prog.find_method(cname, attr, after=obj.after)
            if m is None:
                raise AbsRaise("AttributeError", self.site, f"super has no {attr}")
            return Bound(selfv, m)
        if isinstance(obj, Ext):
            return Ext(obj.path + "." + attr)
        if isinstance(obj, Lst):
            return Bound(obj, _LIST_METHODS[attr]) if attr in _LIST_METHODS else self._bad_attr(obj, attr)
        if isinstance(obj, Dct):
            if attr in _DICT_METHODS:
                return Bound(obj, _DICT_METHODS[attr])
        if isinstance(obj, Render):
            flat_ = _flatten_render(obj)
            if all(isinstance(x, str) for x in flat_):
                obj = "".join(flat_)   # a fully concrete text: every str method applies
            elif len(flat_) == 1 and isinstance(flat_[0], tuple) and flat_[0][0] == "ident" \
                    and attr in ("lower", "upper", "casefold", "strip", "title", "capitalize", "swapcase"):
                obj = Ident(flat_[0][1])   # the text of one symbolic identifier is that identifier
            elif attr in ("lstrip", "rstrip"):
                return Bound(obj, _StrMethod("render:" + attr))
        if isinstance(obj, (str, Render)):
            if attr in ("format", "join", "lower", "upper", "strip"):
                return Bound(obj, _StrMethod(attr))
            if isinstance(obj, Render) and attr in ("startswith", "endswith"):
                return Bound(obj, _StrMethod("render:" + attr))
            if isinstance(obj, str) and attr in ("replace", "split", "lstrip", "rstrip", "startswith", "endswith",
                                                 "isspace", "isdigit", "isalpha", "find", "count", "casefold",
                                                 "title", "swapcase", "capitalize", "isalnum", "isupper", "islower",
                                                 "isnumeric", "isdecimal", "isidentifier", "rfind", "index", "rindex",
                                                 "partition", "rpartition", "rsplit", "splitlines", "zfill", "ljust",
                                                 "rjust", "center", "removeprefix", "removesuffix", "isascii", "istitle"):
                return Bound(obj, _StrMethod("concrete:" + attr))
        if type(obj).__name__ == "Regex" and type(obj).__module__.endswith("regex"):
            if attr in ("match", "fullmatch", "search"):
                return Bound(obj, _StrMethod("re:" + attr))
            if attr in ("pattern", "flags", "groups"):
                return getattr(obj, attr)
        if type(obj).__name__ == "MatchObj" and type(obj).__module__.endswith("regex"):
            if attr in ("group", "groups", "start", "end", "span"):
                return Bound(obj, _StrMethod("match:" + attr))
        if isinstance(obj, (SymStr, SymChar)) and attr in ("startswith", "endswith", "lower", "upper", "casefold", "strip",
                                                           "lstrip", "rstrip"):
            return Bound(obj, _StrMethod("sym:" + attr))
        if isinstance(obj, (SymStr, SymChar)) and attr in ("isdigit", "isalpha", "isspace", "isalnum", "isupper", "islower",
                                                           "isnumeric", "isdecimal", "isascii"):
            return Bound(obj, _StrMethod("symtest:" + attr))
        if isinstance(obj, Num) and attr == "is_integer":
            return Bound(obj, _StrMethod("num:is_integer"))
        if isinstance(obj, Ident) and attr in ("lower", "upper", "casefold", "strip", "title", "capitalize", "swapcase"):
            return Bound(obj, _StrMethod("ident:" + attr))
        if isinstance(obj, FactorDict):
            if attr in ("keys",):
                return Bound(obj, _StrMethod("keys"))
        if obj is None:
            raise AbsRaise("AttributeError", self.site, f"None has no attribute {attr}")
        if isinstance(obj, Opaque):
            h = self.hooks.get("opaque-attr")
            if h is not None:
                return h(self, obj, attr)
            return Opaque(f"{obj.tag}.{attr}")
        return self._bad_attr(obj, attr)

    def _call_written_fields(self, cinfo: ClassInfo) -> set:
        cache = self.prog.__dict__.setdefault("_cwf", {})
        if cinfo.name not in cache:
            out = set()
            for c in self.prog.mro(cinfo):
                for name, m in c.methods.items():
                    if name == "__init__":
                        continue
                    for n in ast.walk(m.node):
                        tg = n.targets if isinstance(n, ast.Assign) else (
                            [n.target] if isinstance(n, (ast.AugAssign, ast.AnnAssign)) else [])
                        for t in tg:
                            for tt in (t.elts if isinstance(t, (ast.Tuple, ast.List)) else [t]):
                                if isinstance(tt, ast.Attribute) and isinstance(tt.value, ast.Name) and tt.value.id == "self":
                                    out.add(tt.attr)
            # fields of a plain record that other functions assign through a parameter or a local (result.variable = ...)
            glob = self.prog.__dict__.get("_cwf_nonself")
            if glob is None:
                glob = set()
                for f in self.prog.all_functions():
                    for n in ast.walk(f.node):
                        tg = n.targets if isinstance(n, ast.Assign) else (
                            [n.target] if isinstance(n, (ast.AugAssign, ast.AnnAssign)) else [])
                        for t in tg:
                            for tt in (t.elts if isinstance(t, (ast.Tuple, ast.List)) else [t]):
                                if isinstance(tt, ast.Attribute) and not (isinstance(tt.value, ast.Name) and tt.value.id == "self"):
                                    glob.add(tt.attr)
                self.prog.__dict__["_cwf_nonself"] = glob
            own = set()
            for c in self.prog.mro(cinfo):
                own |= set(c.class_attrs)
                init = c.methods.get("__init__")
                if init is not None:
                    for n in ast.walk(init.node):
                        if isinstance(n, ast.Attribute) and isinstance(n.ctx, ast.Store) and isinstance(n.value, ast.Name) \
                                and n.value.id == "self":
                            own.add(n.attr)
            out |= (glob & own)
            cache[cinfo.name] = out
        return cache[cinfo.name]

    def _bad_attr(self, obj, attr):
        import builtins as _b
        py = {bool: bool, int: int, float: float, str: str}.get(type(obj))
        if isinstance(obj, Lst):
            py = set if getattr(obj, "is_set", False) else list
        elif isinstance(obj, Tup) and obj.cls is None:
            py = tuple
        elif isinstance(obj, Dct):
            py = dict
        elif isinstance(obj, Num):
            py = float
        if py is not None and not hasattr(py, attr):
            # a plain Python value without such an attribute: AttributeError, as at run time
            raise AbsRaise("AttributeError", self.site, f"'{py.__name__}' object has no attribute '{attr}'")
        raise Unsupported(f"attribute {attr} of {obj!r} at {self.site}")

    def _class_name_of(self, v) -> str:
        if isinstance(v, Node):
            ks = self.kinds_of(self.cell(v))
            if len(ks) != 1:
                raise Unsupported(f"super() on multi-kind cell at {self.site}")
            return next(iter(ks))
        if isinstance(v, Rec):
            return v.cls.name
        raise Unsupported(f"class of {v!r}")

    def dispatch_method(self, cell: Cell, attr: str) -> Optional[FuncInfo]:
        """Resolve a method on a cell, forking over groups of kinds that resolve differently."""
        kinds = self.kinds_of(cell)
        groups: Dict[int, List[str]] = {}
        for k in sorted(kinds):
            m = self.prog.find_method(k, attr)
            groups.setdefault(id(m), []).append(k)
        if len(groups) > 1:
            keys = list(groups)
            i = self.choose(len(keys), f"dispatch({cell.cid}).{attr}",
                            ["|".join(k.replace("Expression", "") for k in groups[key]) for key in keys])
            self.refine_node(cell, frozenset(groups[keys[i]]))
        return self.prog.find_method(sorted(self.kinds_of(cell))[0], attr)

    def _resolve_class_attr(self, cell: Cell, attr: str):
        """Resolve attr through the class hierarchy of the cell's kinds (forks if kinds disagree)."""
        kinds = self.kinds_of(cell)
        groups: Dict[Any, List[str]] = {}
        hooked = set()
        for k in sorted(kinds):
            m = self.prog.find_method(k, attr)
            if m is not None:
                key = ("m", id(m))
                groups.setdefault(key, []).append(k)
                h = self.hooks.get(m.where) or self.hooks.get(m.qualname)
                hooked.add(h if h is not None else ("nohook", id(m)))
            else:
                ca = self.prog.find_class_attr(k, attr)
                key = ("a", id(ca[1])) if ca else ("none",)
                groups.setdefault(key, []).append(k)
        if len(groups) > 1 and len(hooked) == 1 and not isinstance(next(iter(hooked)), tuple) \
                and getattr(next(iter(hooked)), "total", False) and all(g[0] == "m" for g in groups):
            # every possible target is summarised by the same hook: virtual call, no need to split kinds
            m = self.prog.find_method(sorted(kinds)[0], attr)
            return ("method", m)
        if len(groups) > 1:
            # instance fields shadow nothing here; only fork if attr is not an instance field
            if attr in cell.cur or attr in ("left", "right", "parent", "value", "identifier", "child_on_left",
                                            "id", "_changed", "classes", "child", "_rendering_change",
                                            "cloned_node", "cloned_target", "r_index", "x", "y", "offset",
                                            "thread", "level"):
                return None
            keys = list(groups.keys())
            i = self.choose(len(keys), f"dispatch({cell.cid}).{attr}",
                            ["|".join(k.replace("Expression", "") for k in groups[key]) for key in keys])
            self.refine_node(cell, frozenset(groups[keys[i]]))
            kinds = self.kinds_of(cell)
        k0 = sorted(kinds)[0]
        m = self.prog.find_method(k0, attr)
        if m is not None:
            return ("property", m) if m.is_property else ("method", m)
        ca = self.prog.find_class_attr(k0, attr)
        if ca is not None:
            try:
                return ("classattr", const_fold(self.prog, ca[0].module, ca[1]))
            except ValueError:
                # not a constant: a class, a tuple of classes, a call ... evaluated in the defining module (an object
                # that outlives the call, like a default argument)
                try:
                    return ("classattr", self._eval_retained(ca[1], Env(self, None, ca[0].module)))
                except Unsupported:
                    return ("classattr", Opaque(f"classattr:{attr}"))
        return None

    def _slots_of(self, cname: str):
        """None when instances of the class have a __dict__ (some class of the MRO lacks __slots__), else the set of
        slot names of the whole MRO."""
        cache = self.prog.__dict__.setdefault("_slots_cache", {})
        if cname in cache:
            return cache[cname]
        names: set = set()
        result: Any = names
        for c in self.prog.mro(self.prog.cls(cname)):
            e = c.class_attrs.get("__slots__")
            if e is None:
                result = None
                break
            try:
                val = ast.literal_eval(e)
            except Exception:
                result = None
                break
            names.update([val] if isinstance(val, str) else list(val))
        cache[cname] = result
        return result

    def setattr_(self, obj, attr: str, v) -> None:
        if isinstance(obj, Node):
            cell = self.cell(obj)
            if any("__slots__" in c.class_attrs for c in self.prog.classes.values()):
                restricted = {k for k in self.kinds_of(cell) if self._slots_of(k) is not None and attr not in self._slots_of(k)}
                if restricted:
                    if restricted != set(self.kinds_of(cell)):
                        i = self.choose(2, f"slots({cell.cid}).{attr}", ["no-such-slot", "settable"])
                        self.refine_node(cell, frozenset(restricted) if i == 0 else frozenset(self.kinds_of(cell)) - restricted)
                        if i == 1:
                            self.write_field(cell, attr, v)
                            return
                    raise AbsRaise("AttributeError", self.site, f"object has no attribute '{attr}' (__slots__)")
            self.write_field(cell, attr, v)
            return
        if isinstance(obj, Rec):
            sl = self._slots_of(obj.cls.name) if "__slots__" in obj.cls.class_attrs or any(
                "__slots__" in c.class_attrs for c in self.prog.mro(obj.cls)) else None
            if sl is not None and attr not in sl:
                raise AbsRaise("AttributeError", self.site, f"'{obj.cls.name}' object has no attribute '{attr}' (__slots__)")
            old = obj.fields.get(attr, _MISSING)
            if self.retained_mode == 0:
                obj.touched.add(attr)
            obj.fields[attr] = v
            self.events.append(("recstore", obj.cls.name, attr, old, v, self.site, id(obj)))
            return
        if isinstance(obj, Cls):
            self.global_writes.append(((obj.info.name, attr), v, self.site))
            self.events.append(("globalstore", obj.info.name, attr, self.site, tuple(self.call_stack)))
            return
        if isinstance(obj, Opaque):
            self.events.append(("opaquestore", obj.tag, attr, self.site))
            return
        raise Unsupported(f"attribute store {attr} on {obj!r} at {self.site}")

    # ------------------------------------------------------------------ rendering
    def to_render(self, v) -> Any:
        if isinstance(v, str):
            return v
        if isinstance(v, Render):
            return v
        if v is None:
            return "None"
        if isinstance(v, bool):
            return str(v)
        if isinstance(v, (int, float)):
            return str(v)
        if isinstance(v, Num):
            return Render((("num", v.term),))
        if isinstance(v, Ident):
            return Render((("ident", v.name),))
        if isinstance(v, Node):
            cell = self.cell(v)
            if getattr(self, "_msg_mode", 0):
                return Render((("opaque", f"text-of-node#{cell.cid}"),))
            if not cell.fresh and cell.mirror is None and len(cell.kinds) > 1 and not self.config.get("print_summaries"):
                # a pre-existing sub-expression of unknown class: its printed form is kept as one abstract piece instead of
                # enumerating every expression it could be
                return Render((("opaque", f"text-of-node#{cell.cid}"),))
            res = self._resolve_class_attr(cell, "__str__")
            if res is None or res[0] != "method":
                return Render((("opaque", f"object#{cell.cid}"),))
            try:
                inner = self.call_function(res[1], [v], {})
            except Unsupported:
                if cell.fresh or cell.mirror is not None or self.config.get("print_summaries"):
                    raise
                # the printer inspects the text of a sub-expression nothing is known about: the whole form stays abstract
                return Render((("opaque", f"text-of-node#{cell.cid}"),))
            if isinstance(inner, str):
                inner = Render((inner,))
            if not isinstance(inner, Render):
                inner = Render((("opaque", repr(inner)),))
            return Render((("node", cell.cid, inner),))
        if isinstance(v, Opaque):
            return Render((("opaque", v.tag),))
        if isinstance(v, (SymStr, SymChar)):
            return Render((("opaque", repr(v)),))
        if isinstance(v, (Rec, Cls, Tup, Lst)):
            return Render((("opaque", repr(v)),))
        raise Unsupported(f"str() of {v!r} at {self.site}")

    def concat(self, a, b):
        if isinstance(a, str) and isinstance(b, str):
            return a + b
        pa = a.parts if isinstance(a, Render) else (a,)
        pb = b.parts if isinstance(b, Render) else (b,)
        return Render(tuple(p for p in pa + pb if p != ""))

    def format_str(self, fmt: str, args: List[Any]) -> Any:
        pieces = fmt.split("{}")
        if len(pieces) - 1 != len(args) or "{" in "".join(pieces):
            return Opaque("format")
        out: Any = pieces[0]
        for a, p in zip(args, pieces[1:]):
            out = self.concat(out, self.to_render(a))
            out = self.concat(out, p)
        return out

    # ------------------------------------------------------------------ statements
    def exec_block(self, stmts: List[ast.stmt], env: Env) -> None:
        for st in stmts:
            self.exec_stmt(st, env)

    def exec_stmt(self, st: ast.stmt, env: Env) -> None:
        self.steps += 1
        if self.steps > self.config.get("max_steps", 60000):
            raise BoundExceeded("step budget of one path")
        self.site = f"{env.func.where if env.func else env.module.relpath}:L{getattr(st, 'lineno', 0)}"
        if isinstance(st, ast.Expr):
            if isinstance(st.value, ast.Constant):
                return
            self.eval(st.value, env)
        elif isinstance(st, ast.Assign):
            v = self.eval(st.value, env)
            for t in st.targets:
                self.assign(t, v, env)
        elif isinstance(st, ast.AnnAssign):
            if st.value is not None:
                self.assign(st.target, self.eval(st.value, env), env)
        elif isinstance(st, ast.AugAssign):
            cur = self.eval(_as_load(st.target), env)
            rhs = self.eval(st.value, env)
            self.assign(st.target, self.binop(st.op, cur, rhs), env)
        elif isinstance(st, ast.If):
            if self.truth(self.eval(st.test, env), "if"):
                self.exec_block(st.body, env)
            else:
                self.exec_block(st.orelse, env)
        elif isinstance(st, ast.Return):
            v = self.eval(st.value, env) if st.value is not None else None
            if env.func is not None:
                idx = _return_index(env.func.node, st)
                self.ret_log.append((env.func.qualname, idx))
            raise _Return(v)
        elif isinstance(st, ast.Assert):
            if not self.truth(self.eval(st.test, env), "assert"):
                raise AbsRaise("AssertionError", self.site, unparse(st.test))
        elif isinstance(st, ast.Raise):
            if st.exc is None and getattr(self, "_current_exc", None) is not None:
                raise self._current_exc
            if isinstance(st.exc, ast.Call):
                # the message is built before the exception exists: an exception while building it is what escapes.  The
                # text itself is of no interest (sub-expressions print as one abstract piece)
                self._msg_mode = getattr(self, "_msg_mode", 0) + 1
                try:
                    for a_ in list(st.exc.args) + [k.value for k in st.exc.keywords]:
                        try:
                            self.eval(a_, env)
                        except (Unsupported, BoundExceeded):
                            pass
                finally:
                    self._msg_mode -= 1
            raise AbsRaise(self._exc_name(st.exc, env), self.site, unparse(st.exc) if st.exc else "")
        elif isinstance(st, ast.FunctionDef):
            env.vars[st.name] = Fn(FuncInfo(env.module, st, None), env)
        elif isinstance(st, ast.For):
            it = self.eval(st.iter, env)
            one_shot = isinstance(it, Lst) and getattr(it, "is_gen", False)
            items = _Draining(it) if one_shot else (_LiveList(it) if isinstance(it, Lst) else self.iter_items(it))
            broke = False
            for x in items:
                self.assign(st.target, x, env)
                try:
                    self.exec_block(st.body, env)
                except _Break:
                    broke = True
                    break
                except _Continue:
                    continue
            if not broke:
                self.exec_block(st.orelse, env)
        elif isinstance(st, ast.While):
            n = 0
            broke = False
            while self.truth(self.eval(st.test, env), "while"):
                n += 1
                if n > self.config.get("max_loop", self.MAX_LOOP):
                    raise BoundExceeded(f"loop bound at {self.site}")
                try:
                    self.exec_block(st.body, env)
                except _Break:
                    broke = True
                    break
                except _Continue:
                    continue
            if not broke:
                self.exec_block(st.orelse, env)
        elif isinstance(st, ast.Pass):
            pass
        elif isinstance(st, ast.Break):
            raise _Break()
        elif isinstance(st, ast.Continue):
            raise _Continue()
        elif isinstance(st, ast.Nonlocal):
            env.nonlocals.update(st.names)
        elif isinstance(st, ast.Global):
            pass
        elif isinstance(st, (ast.Import, ast.ImportFrom)):
            for a in st.names:
                env.vars[a.asname or a.name.split(".")[0]] = Ext(a.name if isinstance(st, ast.Import) else f"{st.module}.{a.name}")
        elif isinstance(st, ast.Try):
            self._exec_try(st, env)
        elif isinstance(st, ast.With):
            managers = []
            for item in st.items:
                v = self.eval(item.context_expr, env)
                m_enter = self._dunder(v, "__enter__")
                if m_enter is not None:
                    managers.append(v)
                    v = self.call_function(m_enter, [v], {})
                elif isinstance(v, Node):
                    raise Unsupported(f"tree node as a context manager at {self.site}")
                if item.optional_vars is not None:
                    self.assign(item.optional_vars, v, env)
            try:
                self.exec_block(st.body, env)
            except AbsRaise as r:
                suppressed = False
                for mgr in reversed(managers):
                    m_exit = self._dunder(mgr, "__exit__")
                    if m_exit is not None and self.truth(self.call_function(
                            m_exit, [mgr, Opaque("exc-type", truthy=True), Opaque(f"exception:{r.exc}", truthy=True),
                                     Opaque("traceback", truthy=True)], {}), "__exit__"):
                        suppressed = True
                        break
                if not suppressed:
                    raise
            except (_Return, _Break, _Continue):
                for mgr in reversed(managers):
                    m_exit = self._dunder(mgr, "__exit__")
                    if m_exit is not None:
                        self.call_function(m_exit, [mgr, None, None, None], {})
                raise
            else:
                for mgr in reversed(managers):
                    m_exit = self._dunder(mgr, "__exit__")
                    if m_exit is not None:
                        self.call_function(m_exit, [mgr, None, None, None], {})
        elif isinstance(st, ast.Delete):
            for t in st.targets:
                if isinstance(t, ast.Attribute):
                    o = self.eval(t.value, env)
                    if isinstance(o, Node):
                        c = self.cell(o)
                        if self.read_field(c, t.attr) is _MISSING:
                            raise AbsRaise("AttributeError", self.site, f"del {t.attr}")
                        c.cur.pop(t.attr, None)
                        c.cur["__deleted__" + t.attr] = True
                        continue
                raise Unsupported(f"del at {self.site}")
        else:
            raise Unsupported(f"statement {type(st).__name__} at {self.site}")

    def iter_items(self, it) -> list:
        """The elements an iteration over `it` yields, as a Python list (snapshot, like iterating a copy).  A one-shot
        iterator (generator expression, iter(), reversed(), map(), filter(), zip(), enumerate()) is exhausted by it."""
        if isinstance(it, Lst) and getattr(it, "is_gen", False):
            out = list(it.items)
            del it.items[:]
            return out
        if isinstance(it, (Lst, Tup)):
            return list(it.items)
        if isinstance(it, str):
            return list(it)
        if isinstance(it, (SymStr, SymChar)):
            return list(self._as_symstr(it).items)
        if isinstance(it, Dct):
            return list(it.items.keys())
        if it is None or isinstance(it, (bool, int, float, Num, Node, Cls, Fn)):
            raise AbsRaise("TypeError", self.site, f"{it!r} is not iterable")
        raise Unsupported(f"iteration over {it!r} at {self.site}")

    _EXC_PARENTS = {"ZeroDivisionError": "ArithmeticError", "OverflowError": "ArithmeticError",
                    "FloatingPointError": "ArithmeticError", "ArithmeticError": "Exception",
                    "KeyError": "LookupError", "IndexError": "LookupError", "LookupError": "Exception",
                    "ValueError": "Exception", "TypeError": "Exception", "AttributeError": "Exception",
                    "AssertionError": "Exception", "NameError": "Exception", "RuntimeError": "Exception",
                    "RecursionError": "RuntimeError", "NotImplementedError": "RuntimeError",
                    "EnvironmentError": "Exception", "OSError": "Exception", "StopIteration": "Exception",
                    "UnicodeError": "ValueError"}

    def _exc_matches(self, raised: str, handler: str) -> bool:
        seen = set()
        cur: Optional[str] = raised
        while cur is not None and cur not in seen:
            if cur == handler or handler in ("Exception", "BaseException"):
                return True
            seen.add(cur)
            if cur in self.prog.classes:
                c = self.prog.classes[cur]
                cur = c.base_names[0] if c.base_names else None
            else:
                cur = self._EXC_PARENTS.get(cur)
        return False

    def _exec_try(self, st: ast.Try, env: Env) -> None:
        try:
            try:
                self.exec_block(st.body, env)
            except AbsRaise as r:
                handled = False
                for h in st.handlers:
                    names: List[str] = []
                    if h.type is None:
                        names = ["BaseException"]
                    elif isinstance(h.type, ast.Tuple):
                        names = [self._exc_name(x, env) for x in h.type.elts]
                    else:
                        names = [self._exc_name(h.type, env)]
                    if any(self._exc_matches(r.exc, n) for n in names):
                        handled = True
                        if h.name:
                            env.assign(h.name, Opaque(f"exception:{r.exc}"))
                        saved = getattr(self, "_current_exc", None)
                        self._current_exc = r
                        try:
                            self.exec_block(h.body, env)
                        finally:
                            self._current_exc = saved
                        break
                if not handled:
                    raise
            else:
                self.exec_block(st.orelse, env)
        finally:
            if st.finalbody:
                self.exec_block(st.finalbody, env)

    def _exc_name(self, e: Optional[ast.expr], env: Env) -> str:
        if e is None:
            return "reraise"
        if isinstance(e, ast.Call):
            e = e.func
        if isinstance(e, ast.Name):
            return e.id
        if isinstance(e, ast.Attribute):
            return e.attr
        return "Exception"

    def assign(self, t: ast.expr, v, env: Env) -> None:
        if isinstance(t, ast.Name):
            env.assign(t.id, v)
        elif isinstance(t, ast.Attribute):
            self.setattr_(self.eval(t.value, env), t.attr, v)
        elif isinstance(t, (ast.Tuple, ast.List)):
            if isinstance(v, (Tup, Lst)):
                items = list(v.items)
            else:
                raise Unsupported(f"unpacking {v!r} at {self.site}")
            stars = [i for i, x in enumerate(t.elts) if isinstance(x, ast.Starred)]
            if len(stars) > 1:
                raise Unsupported(f"two starred targets at {self.site}")
            if stars:
                i = stars[0]
                after = len(t.elts) - i - 1
                if len(items) < len(t.elts) - 1:
                    raise AbsRaise("ValueError", self.site, "not enough values to unpack")
                for x, y in zip(t.elts[:i], items[:i]):
                    self.assign(x, y, env)
                self.assign(t.elts[i].value, Lst(items[i:len(items) - after]), env)
                for x, y in zip(t.elts[i + 1:], items[len(items) - after:]):
                    self.assign(x, y, env)
                return
            if len(items) != len(t.elts):
                raise AbsRaise("ValueError", self.site, "unpack length")
            for x, y in zip(t.elts, items):
                self.assign(x, y, env)
        elif isinstance(t, ast.Subscript):
            o = self.eval(t.value, env)
            k = self.eval(t.slice, env)
            if isinstance(o, Lst) and isinstance(k, int):
                try:
                    o.items[k] = v
                except IndexError:
                    raise AbsRaise("IndexError", self.site, "list assignment")
            elif isinstance(o, Dct):
                o.items[k] = v
            elif self._dunder(o, "__setitem__") is not None:
                self.call_function(self._dunder(o, "__setitem__"), [o, k, v], {})
            else:
                raise Unsupported(f"subscript store on {o!r} at {self.site}")
        else:
            raise Unsupported(f"assignment target {type(t).__name__} at {self.site}")

    # ------------------------------------------------------------------ expressions
    def eval(self, e: ast.expr, env: Env):
        m = getattr(self, "e_" + type(e).__name__, None)
        if m is None:
            raise Unsupported(f"expression {type(e).__name__} at {self.site}: {unparse(e)}")
        return m(e, env)

    def e_Constant(self, e, env):
        return e.value

    def e_Name(self, e, env):
        v, ok = env.lookup(e.id)
        if ok:
            return v
        mod = env.module
        r = self.prog.resolve_name(mod, e.id)
        if r is not None:
            if r[0] == "class":
                return Cls(r[1])
            if r[0] == "func":
                return Fn(r[1])
            if r[0] == "const":
                try:
                    c = const_fold(self.prog, r[2], r[1])
                    return self._lift(c)
                except ValueError:
                    key = (r[2].name, e.id)
                    memo = self.__dict__.setdefault("_module_objs", {})
                    if key not in memo:
                        memo[key] = self._eval_retained(r[1], Env(self, None, r[2]))
                    return memo[key]
            if r[0] == "extmod":
                return Ext(r[1])
            if r[0] == "ext":
                if r[1] == "typing" and r[2] == "cast":
                    return Builtin("cast")
                return Ext(f"{r[1]}.{r[2]}")
        if e.id in getattr(mod, "nested_assigned", ()):
            return Opaque(f"module:{mod.name}.{e.id}")
        if e.id in _BUILTINS:
            return Builtin(e.id)
        if e.id in ("True", "False", "None"):
            return {"True": True, "False": False, "None": None}[e.id]
        if e.id in _EXC_NAMES:
            return Builtin(e.id)
        import builtins as _b
        if hasattr(_b, e.id):
            raise Unsupported(f"builtin {e.id} is not modelled (at {self.site})")
        raise AbsRaise("NameError", self.site, e.id)

    def _lift(self, c):
        if isinstance(c, list):
            return Lst([self._lift(x) for x in c])
        return c

    def e_Attribute(self, e, env):
        return self.getattr_(self.eval(e.value, env), e.attr)

    def e_Call(self, e, env):
        # super()
        if isinstance(e.func, ast.Name) and e.func.id == "super" and not e.args:
            selfv, ok = env.lookup("self")
            if not ok or env.self_cls is None:
                raise Unsupported(f"super() without self at {self.site}")
            return SuperV(env.self_cls, selfv)
        if isinstance(e.func, ast.Name) and e.func.id == "cast" and len(e.args) == 2:
            return self.eval(e.args[1], env)  # typing.cast: the type argument is never evaluated
        f = self.eval(e.func, env)
        args = []
        for a in e.args:
            if isinstance(a, ast.Starred):
                v = self.eval(a.value, env)
                if isinstance(v, (Lst, Tup)):
                    args.extend(v.items)
                else:
                    raise Unsupported(f"star-arg {v!r} at {self.site}")
            else:
                args.append(self.eval(a, env))
        kwargs = {}
        for k in e.keywords:
            if k.arg is None:
                v = self.eval(k.value, env)
                if isinstance(v, Dct):
                    kwargs.update(v.items)
                else:
                    raise Unsupported(f"**kwargs {v!r} at {self.site}")
            else:
                kwargs[k.arg] = self.eval(k.value, env)
        saved = self.site
        try:
            return self.call(f, args, kwargs)
        finally:
            self.site = saved

    def e_BoolOp(self, e, env):
        if isinstance(e.op, ast.And):
            v = True
            for x in e.values:
                v = self.eval(x, env)
                if not self.truth(v, "and"):
                    return v
            return v
        v = False
        for x in e.values:
            v = self.eval(x, env)
            if self.truth(v, "or"):
                return v
        return v

    def e_UnaryOp(self, e, env):
        v = self.eval(e.operand, env)
        if isinstance(e.op, ast.Not):
            return not self.truth(v, "not")
        if isinstance(e.op, ast.USub):
            if isinstance(v, (int, float)) and not isinstance(v, bool):
                return -v
            t = self.to_term(v)
            if t is not None:
                return Num(("neg", t))
        if isinstance(e.op, ast.UAdd):
            return v
        raise Unsupported(f"unary {type(e.op).__name__} on {v!r} at {self.site}")

    def e_BinOp(self, e, env):
        return self.binop(e.op, self.eval(e.left, env), self.eval(e.right, env))

    def binop(self, op, a, b):
        fa, fb = self._fin(a), self._fin(b)
        if (fa is not None) != (fb is not None):
            import operator as _op
            table = {ast.BitAnd: _op.and_, ast.BitOr: _op.or_, ast.Add: _op.add, ast.Sub: _op.sub, ast.Mult: _op.mul,
                     ast.LShift: _op.lshift, ast.RShift: _op.rshift, ast.BitXor: _op.xor}
            f = table.get(type(op))
            if f is not None:
                if fa is not None and isinstance(b, int):
                    return FinExpr(fa[0], lambda x, g=fa[1]: f(g(x), b), f"({fa[2]} {type(op).__name__} {b})")
                if fb is not None and isinstance(a, int):
                    return FinExpr(fb[0], lambda x, g=fb[1]: f(a, g(x)), f"({a} {type(op).__name__} {fb[2]})")
        num_a = isinstance(a, (int, float)) and not isinstance(a, bool)
        num_b = isinstance(b, (int, float)) and not isinstance(b, bool)
        if num_a and num_b:
            try:
                if isinstance(op, ast.Add):
                    return a + b
                if isinstance(op, ast.Sub):
                    return a - b
                if isinstance(op, ast.Mult):
                    return a * b
                if isinstance(op, ast.Div):
                    return a / b
                if isinstance(op, ast.FloorDiv):
                    return a // b
                if isinstance(op, ast.Mod):
                    return a % b
                if isinstance(op, ast.Pow):
                    return a ** b
                if isinstance(a, int) and isinstance(b, int):
                    if isinstance(op, ast.LShift):
                        return a << b
                    if isinstance(op, ast.BitOr):
                        return a | b
                    if isinstance(op, ast.BitAnd):
                        return a & b
            except ZeroDivisionError:
                raise AbsRaise("ZeroDivisionError", self.site)
        if isinstance(op, ast.Add) and (isinstance(a, (SymStr, SymChar)) or isinstance(b, (SymStr, SymChar))):
            sa, sb = self._as_symstr(a), self._as_symstr(b)
            if sa is not None and sb is not None:
                return SymStr(sa.items + sb.items)
        if isinstance(op, ast.Add) and isinstance(a, (str, Render)) and isinstance(b, (str, Render)):
            return self.concat(a, b)
        plain = (type(None), str, int, float, bool)
        if isinstance(a, plain) and isinstance(b, plain) and (a is None or b is None or isinstance(a, str) != isinstance(b, str)):
            # Python semantics for incompatible plain operands: TypeError (str + None, None * 2, "a" - 1 ...)
            import operator as _op
            table = {ast.Add: _op.add, ast.Sub: _op.sub, ast.Mult: _op.mul, ast.Div: _op.truediv, ast.Mod: _op.mod,
                     ast.Pow: _op.pow, ast.FloorDiv: _op.floordiv}
            f = table.get(type(op))
            if f is not None:
                try:
                    return f(a, b)
                except TypeError as e:
                    raise AbsRaise("TypeError", self.site, str(e))
                except ZeroDivisionError:
                    raise AbsRaise("ZeroDivisionError", self.site)
        if isinstance(a, (str, Render)) and b is None or a is None and isinstance(b, (str, Render)):
            if isinstance(op, ast.Add):
                raise AbsRaise("TypeError", self.site, "can only concatenate str (not \"NoneType\") to str")
        if isinstance(op, ast.Add) and isinstance(a, Lst) and isinstance(b, Lst):
            return Lst(a.items + b.items)
        if isinstance(op, ast.Mult) and isinstance(a, Lst) and isinstance(b, int):
            return Lst(a.items * b)
        if isinstance(op, ast.Mod) and isinstance(a, str):
            return Opaque("%-format")
        ta, tb = self.to_term(a), self.to_term(b)
        if ta is not None and tb is not None and isinstance(op, (ast.Div, ast.FloorDiv, ast.Mod)) \
                and self.config.get("model_zero_division", True):
            if self.sign_query(tb, frozenset(["zero"]), f"{A.term_str(tb)}==0 (divisor)"):
                # plain Python numbers raise; a numpy scalar operand (result of np.power / np.absolute) gives inf or nan
                if self.atom(f"plain-python-numbers({A.term_str(ta)},{A.term_str(tb)})"):
                    raise AbsRaise("ZeroDivisionError", self.site, "division by zero")
                return Num(("atom", "nonfinite:inf-or-nan(numpy scalar division)"))
        if ta is not None and tb is not None:
            k = {ast.Add: "add", ast.Sub: "sub", ast.Mult: "mul", ast.Div: "div", ast.Pow: "pow"}.get(type(op))
            if k is not None:
                return Num((k, ta, tb))
            if isinstance(op, ast.Mod):
                return Num(("mod", ta, tb))
        if isinstance(a, Opaque) or isinstance(b, Opaque):
            return Opaque(f"binop:{type(op).__name__}")
        # containers / nodes / objects combined with an operator Python does not define for them: TypeError
        def shape(v):
            if isinstance(v, Lst):
                return set() if getattr(v, "is_set", False) else []
            if isinstance(v, Tup):
                return ()
            if isinstance(v, Dct):
                return {}
            if isinstance(v, (str, Render, SymStr, SymChar)):
                return "s"
            if isinstance(v, bool) or v is None:
                return v
            if isinstance(v, (int, float)):
                return v or 1
            if isinstance(v, Num):
                return 1.5
            return None
        if (isinstance(a, (Lst, Tup, Dct)) or isinstance(b, (Lst, Tup, Dct))) and (shape(a) is not None or a is None) \
                and (shape(b) is not None or b is None):
            import operator as _op
            table = {ast.Add: _op.add, ast.Sub: _op.sub, ast.Mult: _op.mul, ast.Div: _op.truediv, ast.Mod: _op.mod,
                     ast.Pow: _op.pow, ast.FloorDiv: _op.floordiv, ast.BitOr: _op.or_, ast.BitAnd: _op.and_}
            f = table.get(type(op))
            if f is not None:
                try:
                    f(shape(a), shape(b))
                except TypeError as e:
                    raise AbsRaise("TypeError", self.site, str(e))
                except Exception:
                    pass
        if (isinstance(a, (Node, Rec)) and self._dunder(a, "__add__") is None) or (isinstance(b, (Node, Rec)) and not isinstance(a, (Node, Rec))):
            if not isinstance(a, Opaque) and not isinstance(b, Opaque):
                raise AbsRaise("TypeError", self.site, f"unsupported operand type(s) for {type(op).__name__}")
        raise Unsupported(f"binop {type(op).__name__} on {a!r},{b!r} at {self.site}")

    def e_Compare(self, e, env):
        left = self.eval(e.left, env)
        for op, rhs in zip(e.ops, e.comparators):
            right = self.eval(rhs, env)
            if not self.compare_values(op, left, right):
                return False
            left = right
        return True

    def compare_values(self, op, a, b) -> bool:
        # len(x) > 0 style comparisons on opaque lengths
        if isinstance(a, Opaque) and a.tag.startswith("len:") and isinstance(b, int):
            return self._len_cmp(op, a, b)
        if isinstance(b, Opaque) and b.tag.startswith("len:") and isinstance(a, int):
            flip = {ast.Lt: ast.Gt, ast.Gt: ast.Lt, ast.LtE: ast.GtE, ast.GtE: ast.LtE, ast.Eq: ast.Eq, ast.NotEq: ast.NotEq}
            return self._len_cmp(flip[type(op)](), b, a)
        r = self.compare(op, a, b)
        return r

    def _len_cmp(self, op, lenv: Opaque, n: int) -> bool:
        parts = lenv.tag.split(":")
        label = parts[1]
        least = int(parts[2]) if len(parts) > 2 else 0
        # length is `least` or more
        if isinstance(op, ast.Gt) and n < least:
            return True
        if isinstance(op, ast.GtE) and n <= least:
            return True
        if isinstance(op, ast.Eq) and n < least:
            return False
        if isinstance(op, ast.NotEq) and n < least:
            return True
        if n == 0 and least == 0:
            nonempty = self.atom(f"nonempty:{label}")
            if isinstance(op, (ast.Gt, ast.NotEq)):
                return nonempty
            if isinstance(op, (ast.Eq, ast.LtE)):
                return not nonempty
            if isinstance(op, ast.GtE):
                return True
            if isinstance(op, ast.Lt):
                return False
        return self.atom(f"lencmp:{label}:{type(op).__name__}:{n}")

    def e_IfExp(self, e, env):
        if self.truth(self.eval(e.test, env), "ifexp"):
            return self.eval(e.body, env)
        return self.eval(e.orelse, env)

    def e_Tuple(self, e, env):
        return Tup([self.eval(x, env) for x in e.elts])

    def e_List(self, e, env):
        return Lst([self.eval(x, env) for x in e.elts])

    def e_Set(self, e, env):
        out = Lst([])
        out.is_set = True
        for x in e.elts:
            v = self.eval(x, env)
            if not self._contains(out, v):
                out.items.append(v)
        return out

    def e_Dict(self, e, env):
        d = Dct()
        for k, v in zip(e.keys, e.values):
            d.items[self.eval(k, env)] = self.eval(v, env)
        d.retained = self.retained_mode > 0
        d.born_empty = not d.items
        return d

    def _stale_read(self, d: "Dct", key) -> None:
        """A miss on a cache that outlives the call: an earlier call may have left an entry for this key."""
        if d.retained and d.born_empty and self.config.get("model_history", True):
            if self.atom(f"entry-left-by-an-earlier-call({self.site.split(':L')[0]})"):
                raise HistoryDependence(self.site, f"lookup of {key!r} in a container kept on a long-lived object")

    def e_JoinedStr(self, e, env):
        out: Any = ""
        for v in e.values:
            if isinstance(v, ast.Constant):
                out = self.concat(out, v.value)
            elif isinstance(v, ast.FormattedValue):
                val = self.eval(v.value, env)
                spec = self.eval(v.format_spec, env) if v.format_spec is not None else ""
                if v.conversion != -1 or spec != "":
                    if isinstance(val, (str, int, float, bool)) or val is None:
                        if not isinstance(spec, str):
                            raise Unsupported(f"abstract format spec at {self.site}")
                        conv = {-1: (lambda x: x), 115: str, 114: repr, 97: ascii}[v.conversion]
                        try:
                            out = self.concat(out, format(conv(val), spec))
                        except (ValueError, TypeError) as ex:
                            raise AbsRaise(type(ex).__name__, self.site, str(ex))
                    else:
                        # formatted / converted text of an abstract value: an unknown string
                        out = self.concat(out, Opaque("format"))
                else:
                    out = self.concat(out, self.to_render(val))
        return out

    def _subscript(self, o, k):
        e = ast.Subscript(value=ast.Constant(value=None), slice=ast.Constant(value=None), ctx=ast.Load())
        return self.e_Subscript(e, None, _pre=(o, k))

    def e_Subscript(self, e, env, _pre=None):
        o = self.eval(e.value, env) if _pre is None else _pre[0]
        if _pre is None and isinstance(e.slice, ast.Slice):
            lo = self.eval(e.slice.lower, env) if e.slice.lower else None
            hi = self.eval(e.slice.upper, env) if e.slice.upper else None
            st = self.eval(e.slice.step, env) if e.slice.step else None
            if not all(x is None or (isinstance(x, int) and not isinstance(x, bool)) for x in (lo, hi, st)):
                raise Unsupported(f"slice with abstract bounds of {o!r} at {self.site}")
            if st == 0:
                raise AbsRaise("ValueError", self.site, "slice step cannot be zero")
            if isinstance(o, Tup):
                return Tup(list(o.items)[lo:hi:st])
            if isinstance(o, Lst):
                return Lst(list(o.items)[lo:hi:st])
            if isinstance(o, str):
                return o[lo:hi:st]
            if isinstance(o, SymStr):
                return SymStr(o.items[lo:hi:st])
            if isinstance(o, Render):
                flat_ = _flatten_render(o)
                if all(isinstance(x, str) for x in flat_):
                    return "".join(flat_)[lo:hi:st]
                if lo in (None, 0) and st in (None, 1) and isinstance(hi, int) and hi >= 0 and flat_ \
                        and isinstance(flat_[0], str) and len(flat_[0]) >= hi:
                    return flat_[0][:hi]
            if isinstance(o, Node) and self._dunder(o, "__getitem__") is None:
                raise AbsRaise("TypeError", self.site, "an expression node is not subscriptable")
            if o is None or isinstance(o, (bool, int, float, Num)):
                raise AbsRaise("TypeError", self.site, f"{o!r} is not subscriptable")
            raise Unsupported(f"slice of {o!r} at {self.site}")
        k = self.eval(e.slice, env) if _pre is None else _pre[1]
        if self._dunder(o, "__getitem__") is not None:
            return self.call_function(self._dunder(o, "__getitem__"), [o, k], {})
        if isinstance(o, (Lst, Tup)) and isinstance(k, int):
            try:
                return list(o.items)[k]
            except IndexError:
                raise AbsRaise("IndexError", self.site, "index out of range")
        if isinstance(o, str) and isinstance(k, int):
            try:
                return o[k]
            except IndexError:
                raise AbsRaise("IndexError", self.site, "string index")
        if isinstance(o, SymStr) and isinstance(k, int):
            try:
                return o.items[k]
            except IndexError:
                raise AbsRaise("IndexError", self.site, "string index")
        if isinstance(o, Opaque) and (o.tag.startswith("module:") or o.tag.startswith("item:")):
            # an entry of data the model does not compute: an unknown value, the same one for the same key
            return Opaque(f"item:{o.tag}[{k!r}]")
        if isinstance(o, Ident) and isinstance(k, int):
            # a character of a symbolic identifier: variable names are single letters, the first (and last) character
            # is the name itself
            if k in (0, -1):
                return o
            raise AbsRaise("IndexError", self.site, "string index out of range")
        if isinstance(o, Dct) and isinstance(k, Render) and o.items and all(isinstance(kk, str) for kk in o.items) \
                and all(isinstance(vv, (int, float)) for vv in o.items.values()) \
                and any(isinstance(p_, tuple) and p_[0] in ("ident", "opaque") for p_ in _flatten_render(k)):
            # a table of numbers indexed by a text built from a symbolic name: some entry of the table, determined by the
            # text (equal texts give the equal entry); a missing key is not modelled
            return Opaque("table-entry:" + "".join(p_ if isinstance(p_, str) else f"<{p_[1]}>" for p_ in _flatten_render(k)))
        if isinstance(o, Dct):
            for kk, vv in o.items.items():
                if self._equal(kk, k):
                    return vv
            kt = self.to_term(k)
            if kt is not None and any(kt == m for m in getattr(o, "members", [])):
                raise PathInfeasible()
            self._stale_read(o, k)
            raise AbsRaise("KeyError", self.site, repr(k))
        if isinstance(o, FactorDict):
            return self._factor_lookup(o, k)
        if isinstance(o, Cls):
            return o  # generic alias
        if isinstance(o, Ext):
            return o
        if isinstance(o, Opaque):
            return Opaque(f"{o.tag}[]")
        raise Unsupported(f"subscript of {o!r} at {self.site}")

    def _factor_lookup(self, fd: FactorDict, k):
        t = fd.term if isinstance(fd.term, tuple) else A.lit(fd.term)
        kt = self.to_term(k)
        if kt is None:
            raise Unsupported(f"factor lookup key {k!r}")
        known = getattr(fd, "known_keys", [])
        if not any(kt == x for x in known):
            raise AbsRaise("KeyError", self.site, f"factor table of {self._fd_str(fd)} has no proven key {A.term_str(kt)}")
        p = A.normalize(("div", t, kt))
        c = A.nf_is_const(p)
        if c is not None:
            return int(c) if c.denominator == 1 else float(c)
        return Num(("div", t, kt))

    def e_ListComp(self, e, env):
        if len(e.generators) != 1:
            out: list = []
            self._comprehension(e.generators, env, lambda sub: out.append(self.eval(e.elt, sub)))
            return Lst(out)
        g = e.generators[0]
        it = self.eval(g.iter, env)
        h = self.hooks.get("listcomp")
        if h is not None:
            r = h(self, e, it, env)
            if r is not NotImplemented:
                return r
        out = []
        sub = Env(self, env.func, env.module, env)
        for x in self.iter_items(it):
            self.assign(g.target, x, sub)
            if all(self.truth(self.eval(c, sub)) for c in g.ifs):
                out.append(self.eval(e.elt, sub))
        return Lst(out)

    def _comprehension(self, generators, env, emit) -> None:
        sub = Env(self, env.func, env.module, env)

        def rec(i):
            if i == len(generators):
                emit(sub)
                return
            g = generators[i]
            if getattr(g, "is_async", 0):
                raise Unsupported(f"async comprehension at {self.site}")
            for x in self.iter_items(self.eval(g.iter, sub if i else env)):
                self.assign(g.target, x, sub)
                if all(self.truth(self.eval(c, sub)) for c in g.ifs):
                    rec(i + 1)
        rec(0)

    def e_DictComp(self, e, env):
        d = Dct()

        def emit(sub):
            k = self.eval(e.key, sub)
            v = self.eval(e.value, sub)
            for kk in list(d.items):
                if self._equal(kk, k):
                    d.items[kk] = v
                    return
            d.items[k] = v
        self._comprehension(e.generators, env, emit)
        return d

    def e_SetComp(self, e, env):
        out = Lst([])
        out.is_set = True

        def emit(sub):
            v = self.eval(e.elt, sub)
            if not self._contains(out, v):
                out.items.append(v)
        self._comprehension(e.generators, env, emit)
        return out

    def e_NamedExpr(self, e, env):
        v = self.eval(e.value, env)
        self.assign(e.target, v, env)
        return v

    def e_GeneratorExp(self, e, env):
        # evaluated eagerly (the element expressions of this package have no side effects); marked so that next() can
        # consume it
        out = self.e_ListComp(e, env)
        if isinstance(out, Lst):
            out = Lst(list(out.items))
            out.is_gen = True
        return out

    def e_Lambda(self, e, env):
        fd = ast.FunctionDef(name="<lambda>", args=e.args, body=[ast.Return(value=e.body)], decorator_list=[],
                             lineno=e.lineno, col_offset=e.col_offset)
        return Fn(FuncInfo(env.module, fd, None), env)

    def e_Starred(self, e, env):
        raise Unsupported("starred")


def _as_load(t: ast.expr) -> ast.expr:
    import copy
    n = copy.copy(t)
    n.ctx = ast.Load()
    return n


_RET_IDX: Dict[int, Dict[int, int]] = {}


def _return_index(fn: ast.FunctionDef, st: ast.Return) -> int:
    m = _RET_IDX.get(id(fn))
    if m is None:
        m = {}
        i = 0
        for n in ast.walk(fn):
            if isinstance(n, ast.Return):
                m[id(n)] = i
                i += 1
        _RET_IDX[id(fn)] = m
    return m.get(id(st), -1)


_BUILTINS = {"all", "any", "sorted", "isinstance", "len", "bool", "print", "str", "repr", "type", "list", "tuple", "set", "int", "float",
             "abs", "min", "max", "range", "enumerate", "getattr", "hasattr", "super", "id", "dict", "zip", "reversed", "map",
             "filter", "sum", "chr", "ord", "round", "divmod", "pow", "bin", "hex", "oct", "frozenset", "NotImplemented",
             "iter", "next", "vars", "setattr", "delattr"}
_EXC_NAMES = {"ValueError", "Exception", "NotImplementedError", "TypeError", "IndexError", "KeyError",
              "AssertionError", "AttributeError", "EnvironmentError", "RuntimeError"}


class _ListMethod:
    def __init__(self, name):
        self.name = name
        self.qualname = f"list.{name}"
        self.where = f"builtin:list.{name}"
        self.cls = None


class _StrMethod(_ListMethod):
    def __init__(self, name):
        self.name = name
        self.qualname = f"str.{name}"
        self.where = f"builtin:str.{name}"
        self.cls = None


_LIST_METHODS = {n: _ListMethod(n) for n in ("append", "pop", "insert", "sort", "extend", "index", "remove", "copy", "add",
                                              "union", "reverse", "clear", "count", "discard", "update")}
_DICT_METHODS = {n: _ListMethod("dict_" + n) for n in ("get", "keys", "values", "items", "setdefault", "pop", "update", "copy",
                                                       "clear")}

_orig_call_function = Interp.call_function


def _call_function(self: Interp, info, args, kwargs, closure=None, nohook=False):
    if isinstance(info, _ListMethod):
        return _call_builtin_method(self, info, args, kwargs)
    return _orig_call_function(self, info, args, kwargs, closure, nohook)


Interp.call_function = _call_function  # type: ignore


def _call_builtin_method(self: Interp, info, args, kwargs):
    obj, rest = args[0], args[1:]
    n = info.name
    if n.startswith("ident:"):
        # the case-mapped / trimmed spelling of a symbolic identifier is another identifier: whether it equals the
        # original (an already lower-case name) is decided, per path, like any equality of two identifiers
        op = n[6:]
        if obj.name.startswith(op + "("):
            return obj   # idempotent
        return Ident(f"{op}({obj.name})")
    if n == "num:is_integer":
        return self.atom(f"is_integer({A.term_str(obj.term)})")
    if n.startswith("re:"):
        return self._regex_call(obj, n[3:], list(rest), kwargs)
    if n.startswith("match:"):
        return self._match_call(obj, n[6:], list(rest))
    if isinstance(obj, (SymStr, SymChar)) and n.startswith("symtest:"):
        items = self._as_symstr(obj).items
        fn = getattr(str, n[8:])
        if not items:
            return False
        for x in items:
            if isinstance(x, str):
                ok = fn(x)
            elif isinstance(x, SymChar):
                ok = self.char_test(x, fn, f"ch{x.cid}.{n[8:]}()")
            elif isinstance(x, FinExpr):
                ok = self.char_test(SymChar(x.cid), lambda m, f=x.fn: fn(f(m)), f"{x.desc}.{n[8:]}()")
            else:
                raise Unsupported(f"{n} on {x!r} at {self.site}")
            if not ok:
                return False
        return True
    if isinstance(obj, (SymStr, SymChar)) and n in ("sym:lower", "sym:upper", "sym:casefold"):
        fn = getattr(str, n[4:])
        out = []
        for x in self._as_symstr(obj).items:
            if isinstance(x, str):
                out.append(fn(x))
            elif isinstance(x, SymChar):
                if any(len(fn(m)) != 1 for m in self.charsets[x.cid]):
                    raise Unsupported(f"{n} changes the length of a member of ch{x.cid} at {self.site}")
                out.append(FinExpr(x.cid, fn, f"{n[4:]}(ch{x.cid})"))
            elif isinstance(x, FinExpr):
                out.append(FinExpr(x.cid, (lambda m, f=x.fn, g=fn: g(f(m))), f"{n[4:]}({x.desc})"))
            else:
                raise Unsupported(f"{n} on {x!r} at {self.site}")
        return SymStr(tuple(out))
    if isinstance(obj, (SymStr, SymChar)) and n in ("sym:strip", "sym:lstrip", "sym:rstrip"):
        chars = rest[0] if rest else None
        if not (chars is None or isinstance(chars, str)):
            raise Unsupported(f"{n} with abstract argument at {self.site}")
        items = list(self._as_symstr(obj).items)

        def drops(x) -> bool:
            pred = (lambda ch: ch.isspace()) if chars is None else (lambda ch: ch in chars)
            if isinstance(x, str):
                return pred(x)
            if isinstance(x, SymChar):
                return self.char_test(x, pred, f"ch{x.cid} is stripped")
            if isinstance(x, FinExpr):
                return self.char_test(SymChar(x.cid), lambda m, f=x.fn: pred(f(m)), f"{x.desc} is stripped")
            raise Unsupported(f"{n} on {x!r} at {self.site}")
        if n in ("sym:strip", "sym:lstrip"):
            while items and drops(items[0]):
                items.pop(0)
        if n in ("sym:strip", "sym:rstrip"):
            while items and drops(items[-1]):
                items.pop()
        return SymStr(tuple(items))
    if isinstance(obj, (SymStr, SymChar)) and n.startswith("sym:"):
        arg = rest[0] if rest else None
        if not isinstance(arg, str):
            raise Unsupported(f"{n} with abstract argument at {self.site}")
        items = self._as_symstr(obj).items
        if len(arg) > len(items):
            return False
        part = items[:len(arg)] if n == "sym:startswith" else items[len(items) - len(arg):]
        return self.str_equal(SymStr(part), arg)
    if isinstance(obj, Lst):
        if n == "append":
            obj.items.append(rest[0])
            return None
        if n == "add" and getattr(obj, "is_set", False):
            if not self._contains(obj, rest[0]):
                obj.items.append(rest[0])
            return None
        if n == "discard" and getattr(obj, "is_set", False):
            for i, x in enumerate(obj.items):
                if self._equal(x, rest[0]):
                    del obj.items[i]
                    break
            return None
        if n == "update" and getattr(obj, "is_set", False):
            for x in self.iter_items(rest[0]):
                if not self._contains(obj, x):
                    obj.items.append(x)
            return None
        if n == "union" and getattr(obj, "is_set", False) and isinstance(rest[0], (Lst, Tup)):
            out = Lst(list(obj.items))
            out.is_set = True
            for x in rest[0].items:
                if not self._contains(out, x):
                    out.items.append(x)
            return out
        if n == "pop":
            try:
                return obj.items.pop(*[x for x in rest])
            except IndexError:
                raise AbsRaise("IndexError", self.site, "pop from empty list")
        if n == "insert":
            obj.items.insert(rest[0], rest[1])
            return None
        if n == "extend":
            obj.items.extend(rest[0].items)
            return None
        if n == "copy":
            return Lst(obj.items)
        if n == "sort":
            obj.items[:] = self._sorted(list(obj.items), kwargs.get("key"), kwargs.get("reverse", False))
            return None
        if n == "reverse":
            obj.items.reverse()
            return None
        if n == "clear":
            del obj.items[:]
            return None
        if n == "count":
            return sum(1 for x in obj.items if self._equal(x, rest[0]))
        if n == "index":
            for i, x in enumerate(obj.items):
                if self._equal(x, rest[0]):
                    return i
            raise AbsRaise("ValueError", self.site, "value is not in list")
        if n == "remove":
            for i, x in enumerate(obj.items):
                if self._equal(x, rest[0]):
                    del obj.items[i]
                    return None
            raise AbsRaise("ValueError", self.site, "list.remove(x): x not in list")
    if isinstance(obj, Dct):
        if n == "dict_get":
            for kk, vv in obj.items.items():
                if self._equal(kk, rest[0]):
                    return vv
            self._stale_read(obj, rest[0])
            return rest[1] if len(rest) > 1 else None
        if n == "dict_keys":
            return Lst(list(obj.items.keys()))
        if n == "dict_values":
            return Lst(list(obj.items.values()))
        if n == "dict_items":
            return Lst([Tup((k, v)) for k, v in obj.items.items()])
        if n == "dict_copy":
            d = Dct()
            d.items.update(obj.items)
            return d
        if n == "dict_clear":
            obj.items.clear()
            return None
        if n == "dict_update":
            src = rest[0] if rest else Dct()
            if isinstance(src, Dct):
                pairs = list(src.items.items())
            else:
                pairs = [(p_.items[0], p_.items[1]) for p_ in self.iter_items(src)]
            for k, v in pairs + list(kwargs.items()):
                for kk in list(obj.items):
                    if self._equal(kk, k):
                        obj.items[kk] = v
                        break
                else:
                    obj.items[k] = v
            return None
        if n in ("dict_setdefault", "dict_pop"):
            for kk, vv in list(obj.items.items()):
                if self._equal(kk, rest[0]):
                    if n == "dict_pop":
                        del obj.items[kk]
                    return vv
            self._stale_read(obj, rest[0])
            if n == "dict_setdefault":
                obj.items[rest[0]] = rest[1] if len(rest) > 1 else None
                return obj.items[rest[0]]
            if len(rest) > 1:
                return rest[1]
            raise AbsRaise("KeyError", self.site, repr(rest[0]))
    if isinstance(obj, (str, Render)):
        if n == "format":
            if isinstance(obj, str):
                return self.format_str(obj, rest)
            # the template is not a literal: data is part of it.  Text that is not the spelling of a number or of an
            # identifier can hold "{" / "}", which format() reads as a replacement field: KeyError for "{x}", IndexError
            # for "{}" beyond the arguments, ValueError for a lone brace
            data = [t for t in _flatten_render(obj) if isinstance(t, tuple) and t[0] not in ("num", "ident")]
            if data and self.choose(2, f"format-field-in-data@{self.site.split(':L')[-1]}", ["no", "yes"]) == 1:
                raise AbsRaise("KeyError", self.site, f"str.format() on a template that contains data ({data[0]!r}): a brace in "
                               f"the data is read as a replacement field (KeyError / IndexError / ValueError)")
            return Opaque("format")
        if n == "join" and isinstance(obj, str):
            items = rest[0].items if isinstance(rest[0], (Lst, Tup)) else None
            if items is None:
                return Opaque("join")
            out: Any = ""
            for i, x in enumerate(items):
                if i:
                    out = self.concat(out, obj)
                out = self.concat(out, self.to_render(x))
            return out
        if isinstance(obj, str) and n in ("lower", "upper", "strip"):
            return getattr(obj, n)(*[r for r in rest if isinstance(r, str)])
        if isinstance(obj, Render) and n in ("render:lstrip", "render:rstrip"):
            chars = rest[0] if rest else None
            if not isinstance(chars, str) or n == "render:rstrip":
                raise Unsupported(f"{n} with {chars!r} at {self.site}")
            flat = list(_flatten_render(obj))
            while flat:
                head = flat[0]
                if isinstance(head, str):
                    stripped = head.lstrip(chars)
                    if stripped:
                        flat[0] = stripped
                        break
                    flat.pop(0)
                    continue
                if isinstance(head, tuple) and head[0] == "num" and set("0123456789.") <= set(chars) and "-" not in chars \
                        and "e" not in chars:
                    # the text of a number (positional notation): '-' first when negative, digits and a dot otherwise
                    if self.sign_query(head[1], frozenset(["neg"]), f"{A.term_str(head[1])}<0"):
                        break
                    flat.pop(0)
                    continue
                if isinstance(head, tuple) and head[0] == "ident" and not any(ch.isalpha() for ch in chars):
                    break   # a variable name consists of letters: nothing of it is stripped
                raise Unsupported(f"lstrip on a partly abstract string at {self.site}")
            return Render(tuple(flat)) if flat else ""
        if isinstance(obj, Render) and n.startswith("render:"):
            flat = _flatten_render(obj)
            arg = rest[0] if rest else None
            if not isinstance(arg, str):
                raise Unsupported(f"{n} with abstract argument at {self.site}")
            if n == "render:startswith":
                lead = ""
                for part in flat:
                    if isinstance(part, str):
                        lead += part
                    else:
                        break
                if len(lead) >= len(arg) or len(flat) == 1 and isinstance(flat[0], str):
                    return lead.startswith(arg)
                if not arg.startswith(lead):
                    return False
                nxt = flat[1] if lead and len(flat) > 1 else (flat[0] if flat else None)
                if isinstance(nxt, tuple) and nxt[0] == "num" and arg[len(lead):] == "-":
                    # the text of a number starts with '-' exactly when the number is negative
                    return self.sign_query(nxt[1], frozenset(["neg"]), f"{A.term_str(nxt[1])}<0")
                if isinstance(nxt, tuple) and nxt[0] == "ident" and not arg[len(lead):][:1].isalpha():
                    return False   # a variable name starts with a letter
                raise Unsupported(f"startswith on a partly abstract string at {self.site}")
            tail = ""
            for part in reversed(flat):
                if isinstance(part, str):
                    tail = part + tail
                else:
                    break
            if len(tail) >= len(arg):
                return tail.endswith(arg)
            if not arg.endswith(tail):
                return False
            raise Unsupported(f"endswith on a partly abstract string at {self.site}")
        if isinstance(obj, str) and n.startswith("concrete:"):
            if all(isinstance(r, (str, int)) or r is None for r in rest):
                try:
                    r = getattr(obj, n.split(":", 1)[1])(*rest)
                except (ValueError, TypeError) as ex:
                    raise AbsRaise(type(ex).__name__, self.site, str(ex))
                return Lst(r) if isinstance(r, list) else (Tup(r) if isinstance(r, tuple) else r)
            raise Unsupported(f"str.{n} with abstract arguments at {self.site}")
    if isinstance(obj, FactorDict) and n == "keys":
        return obj
    raise Unsupported(f"method {info.qualname} on {obj!r} at {self.site}")


def _flatten_render(r) -> list:
    out: list = []
    for p in (r.parts if isinstance(r, Render) else [r]):
        if isinstance(p, str):
            if out and isinstance(out[-1], str):
                out[-1] += p
            else:
                out.append(p)
        elif isinstance(p, tuple) and p[0] == "node":
            for q in _flatten_render(p[2]):
                if isinstance(q, str) and out and isinstance(out[-1], str):
                    out[-1] += q
                else:
                    out.append(q)
        else:
            out.append(p)
    return out


# ---------------------------------------------------------------------------- exploration driver
class PathResult:
    def __init__(self, interp: Interp, outcome: str, value=None, exc: Optional[AbsRaise] = None, note: str = ""):
        self.interp = interp
        self.outcome = outcome  # 'return' | 'raise' | 'bound'
        self.value = value
        self.exc = exc
        self.note = note
        self.decisions = [d[2] for d in interp.decisions]

    @property
    def cond(self) -> str:
        return " & ".join(self.decisions)


def explore(prog: Program, body: Callable[[Interp], Any], config: Optional[dict] = None,
            max_paths: int = 40000, sink: Optional[Callable[["PathResult"], None]] = None) -> List[PathResult]:
    """Enumerate all paths of `body` (a function that drives one Interp).  With `sink`, every result is
    handed over and dropped (constant memory)."""
    results: List[PathResult] = []

    class _Sink(list):
        def append(self, x):
            sink(x)
    if sink is not None:
        results = _Sink()
    prefix: List[int] = []
    n_paths = 0
    import time as _time
    t_end = _time.time() + float((config or {}).get("time_budget", 240))
    while True:
        n_paths += 1
        if n_paths > max_paths or _time.time() > t_end:
            if (config or {}).get("budget_soft"):
                it = Interp(prog, prefix, config)
                results.append(PathResult(it, "bound", note=f"exploration budget exhausted after {n_paths - 1} paths"))
                break
            raise AnalysisError(f"exploration budget exceeded ({n_paths - 1} paths)")
        it = Interp(prog, prefix, config)
        try:
            v = body(it)
            results.append(PathResult(it, "return", v))
        except AbsRaise as r:
            results.append(PathResult(it, "raise", exc=r))
        except BoundExceeded as b:
            results.append(PathResult(it, "bound", note=str(b)))
        except HistoryDependence as h:
            results.append(PathResult(it, "history", note=str(h)))
        except PathInfeasible:
            pass
        except RecursionError:
            results.append(PathResult(it, "bound", note="python recursion"))
        # next prefix
        dec = [(c, n) for c, n, _ in it.decisions]
        while dec and dec[-1][0] + 1 >= dec[-1][1]:
            dec.pop()
        if not dec:
            break
        prefix = [c for c, _ in dec[:-1]] + [dec[-1][0] + 1]
    return results
