"""Light receiver-type resolution (E2): class of `self`, annotated parameters/locals, locals bound to a
constructor call or to another typed name.  Returns a class name of the package, or None when unknown."""
from __future__ import annotations

import ast
from typing import Dict, Optional

from .model import FuncInfo, Program, unparse


def _ann_class(prog: Program, f: FuncInfo, ann: Optional[ast.expr]) -> Optional[str]:
    if ann is None:
        return None
    txt = unparse(ann).replace('"', "").replace("'", "")
    for wrap in ("Optional[", "List[", "Type["):
        if txt.startswith(wrap) and txt.endswith("]"):
            if wrap == "Optional[":
                txt = txt[len(wrap):-1]
    if txt in prog.classes:
        return txt
    return None


def local_types(prog: Program, f: FuncInfo) -> Dict[str, str]:
    env: Dict[str, str] = {}
    a = f.node.args
    for p in a.posonlyargs + a.args + a.kwonlyargs:
        c = _ann_class(prog, f, p.annotation)
        if c:
            env[p.arg] = c
    if f.cls is not None and a.args:
        env[a.args[0].arg] = f.cls.name
    changed = True
    rounds = 0
    while changed and rounds < 4:
        changed = False
        rounds += 1
        for n in ast.walk(f.node):
            tgt = None
            val = None
            ann = None
            if isinstance(n, ast.Assign) and len(n.targets) == 1 and isinstance(n.targets[0], ast.Name):
                tgt, val = n.targets[0].id, n.value
            elif isinstance(n, ast.AnnAssign) and isinstance(n.target, ast.Name):
                tgt, val, ann = n.target.id, n.value, n.annotation
            if tgt is None or tgt in env:
                continue
            c = _ann_class(prog, f, ann)
            if c is None and val is not None:
                c = expr_class(prog, f, val, env)
            if c:
                env[tgt] = c
                changed = True
    return env


def expr_class(prog: Program, f: FuncInfo, e: ast.expr, env: Dict[str, str]) -> Optional[str]:
    if isinstance(e, ast.Name):
        return env.get(e.id)
    if isinstance(e, ast.Call):
        if isinstance(e.func, ast.Name):
            r = prog.resolve_name(f.module, e.func.id)
            if r and r[0] == "class":
                return r[1].name
            if e.func.id == "cast" and len(e.args) == 2:
                return _ann_class(prog, f, e.args[0]) or expr_class(prog, f, e.args[1], env)
            if r and r[0] == "func":
                return _ann_class(prog, r[1], r[1].node.returns)
        if isinstance(e.func, ast.Attribute):
            rc = expr_class(prog, f, e.func.value, env)
            if rc:
                m = prog.find_method(rc, e.func.attr)
                if m is not None:
                    return _ann_class(prog, m, m.node.returns)
    if isinstance(e, ast.Attribute):
        rc = expr_class(prog, f, e.value, env)
        if rc:
            for c in prog.mro(prog.cls(rc)):
                if e.attr in c.annotations:
                    return _ann_class(prog, f, c.annotations[e.attr])
    if isinstance(e, ast.IfExp):
        return expr_class(prog, f, e.body, env) or expr_class(prog, f, e.orelse, env)
    return None


def is_node_class(prog: Program, name: Optional[str]) -> Optional[bool]:
    if name is None:
        return None
    return prog.is_subclass(name, "BinaryTreeNode")
