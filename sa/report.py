"""Outcome plumbing shared by all property checks.

Three outcomes (DESIGN 0.1): exit 0 pass / 1 VIOLATION (witness backed, not listed in
known_findings.json) / 2 ANALYSIS-ERROR.  Evidence is rewritten on every run.
"""
from __future__ import annotations

import json
import os
import time
from pathlib import Path
from typing import Any, Dict, List, Optional

VERIF = Path(__file__).resolve().parent.parent
# per-digest caches of the engines; the self-test points this into the scratch copy it deletes afterwards
CACHE = Path(os.environ.get("VERIF_CACHE", str(VERIF / ".cache")))
REPO = Path(os.environ.get("VERIF_REPO", "/repo"))
# self-test runs analyse scratch copies: their evidence / replay files must not overwrite the real ones
OUT = Path(os.environ["VERIF_OUT"]) if os.environ.get("VERIF_OUT") else VERIF


class AnalysisError(Exception):
    """The analysis could not be carried out (vanished anchor, unsupported syntax, ...)."""


class Obligation:
    __slots__ = ("rule", "key", "construct", "status", "detail", "witness", "where")

    def __init__(self, rule, key, construct, status, detail, witness, where):
        self.rule = rule
        self.key = key
        self.construct = construct
        self.status = status  # "ok" | "fail" | "undecided" | "info"
        self.detail = detail
        self.witness = witness
        self.where = where

    def as_json(self) -> Dict[str, Any]:
        d = {
            "rule": self.rule,
            "key": self.key,
            "construct": self.construct,
            "verdict": self.status,
        }
        if self.where:
            d["where"] = self.where
        if self.detail:
            d["detail"] = self.detail
        if self.witness is not None:
            d["witness"] = self.witness
        return d


class Check:
    """Collector for one property run."""

    def __init__(self, pid: str, tier: str, seed: int = 0):
        self.pid = pid
        self.tier = tier
        self.seed = seed
        self.t0 = time.time()
        self.obls: List[Obligation] = []
        self.min_instances: Dict[str, int] = {}
        self.max_undecided: Optional[int] = None
        self.explanation = ""
        self.not_decided: List[str] = []
        self.assumptions: List[str] = []
        self.trusted: List[str] = []
        self.analysed: Dict[str, Any] = {}
        self.rule_text: Dict[str, str] = {}
        self.exhaustive = False
        self.technique = ""
        self.extra: Dict[str, Any] = {}

    # ------------------------------------------------------------------ recording
    def rule(self, rid: str, text: str, minimum: int = 1) -> None:
        """Declare a rule with the frozen minimum number of instances it must inspect."""
        self.rule_text[rid] = text
        self.min_instances[rid] = minimum

    def ok(self, rule: str, key: str, construct: str, detail: str = "", where: str = "") -> None:
        self.obls.append(Obligation(rule, key, construct, "ok", detail, None, where))

    def fail(self, rule: str, key: str, construct: str, detail: str, witness: Any = None,
             where: str = "") -> None:
        self.obls.append(Obligation(rule, key, construct, "fail", detail, witness, where))

    def undecided(self, rule: str, key: str, construct: str, detail: str = "", where: str = "") -> None:
        self.obls.append(Obligation(rule, key, construct, "undecided", detail, None, where))

    def info(self, rule: str, key: str, construct: str, detail: str = "", where: str = "") -> None:
        self.obls.append(Obligation(rule, key, construct, "info", detail, None, where))

    def verdict(self, cond: Optional[bool], rule: str, key: str, construct: str, detail: str = "",
                witness: Any = None, where: str = "") -> None:
        if cond is True:
            self.ok(rule, key, construct, detail, where)
        elif cond is False:
            self.fail(rule, key, construct, detail, witness, where)
        else:
            self.undecided(rule, key, construct, detail, where)

    def renamed(self, mapping: Dict[str, str]) -> "RenamedCheck":
        """A view of this check under which a clause written for another property records its obligations with this
        property's rule ids (a clause two properties rely on is run - and reported - under both)."""
        return RenamedCheck(self, mapping)

    # ------------------------------------------------------------------ finishing
    def _known(self) -> Dict[str, Dict[str, Any]]:
        p = VERIF / "known_findings.json"
        if not p.exists():
            return {}
        data = json.loads(p.read_text())
        out = {}
        for e in data.get("findings", []):
            if e.get("property") == self.pid and e.get("status") == "known":
                out[e["key"]] = e
        return out

    def finish(self) -> int:
        known = self._known()
        counts: Dict[str, int] = {}
        for o in self.obls:
            if o.status != "info":
                counts[o.rule] = counts.get(o.rule, 0) + 1
        errors: List[str] = []
        if getattr(self, "aborted", None):
            errors.append(f"the analysis stopped before it was complete: {self.aborted}")
        for rid, mn in self.min_instances.items():
            if counts.get(rid, 0) < mn:
                errors.append(
                    f"rule {rid} inspected {counts.get(rid, 0)} instance(s), frozen minimum is {mn}"
                )
        undec = [o for o in self.obls if o.status == "undecided"]
        if self.max_undecided is not None and len(undec) > self.max_undecided:
            errors.append(
                f"{len(undec)} undecided obligations, frozen maximum is {self.max_undecided}: "
                + "; ".join(f"{o.key}" for o in undec[:6])
            )
        fails = [o for o in self.obls if o.status == "fail"]
        # group failures by key: one finding per key
        by_key: Dict[str, List[Obligation]] = {}
        for o in fails:
            by_key.setdefault(o.key, []).append(o)
        lines: List[str] = []
        new_keys = []
        known_hit = []
        for key, group in by_key.items():
            if key in known:
                known_hit.append(key)
                lines.append(
                    f"KNOWN-FINDING: property={self.pid} {key} :: {known[key].get('what', group[0].detail)}"
                )
            else:
                new_keys.append(key)
        replay_dir = OUT / "replay"
        replay_dir.mkdir(parents=True, exist_ok=True)
        for old in replay_dir.glob(f"{self.pid}-*.json"):
            old.unlink()
        for i, key in enumerate(new_keys):
            group = by_key[key]
            path = replay_dir / f"{self.pid}-{i + 1}.json"
            path.write_text(json.dumps({
                "property": self.pid,
                "key": key,
                "tier": self.tier,
                "instances": [o.as_json() for o in group[:20]],
                "n_instances": len(group),
            }, indent=1, default=str))
            o = group[0]
            lines.append(f"VIOLATION property={self.pid} replay={path}")
            lines.append(f"  rule={o.rule} key={key}")
            lines.append(f"  at {o.where or '?'}: {o.construct}")
            lines.append(f"  {o.detail}")
        for e in errors:
            lines.append(f"ANALYSIS-ERROR property={self.pid} {e}")
        # a witness-backed violation stands even when another part of the analysis could not be completed
        code = 1 if new_keys else (2 if errors else 0)
        self._write_evidence(counts, fails, undec, known_hit, new_keys, errors)
        n_ok = sum(1 for o in self.obls if o.status == "ok")
        lines.append(
            f"[{self.pid} {self.tier}] obligations={len(self.obls)} ok={n_ok} undecided={len(undec)} "
            f"failing={len(fails)} (keys: known={len(known_hit)} new={len(new_keys)}) "
            f"rules={len(counts)} wall={time.time() - self.t0:.2f}s exit={code}"
        )
        print("\n".join(lines))
        return code

    def _write_evidence(self, counts, fails, undec, known_hit, new_keys, errors) -> None:
        real = [o for o in self.obls if o.status != "info"]
        distinct = len({(o.rule, o.key, o.construct) for o in real})
        samples = []
        seen_rules = set()
        for o in real:
            if o.rule not in seen_rules:
                seen_rules.add(o.rule)
                samples.append(o.as_json())
        for o in fails[:5]:
            samples.append(o.as_json())
        n_ok = sum(1 for o in real if o.status == "ok")
        cov: Dict[str, Any] = {
            "explanation": self.explanation,
            "technique": self.technique,
            "not_decided": self.not_decided,
            "evaluations": len(real),
            "distinct_nontrivial": distinct,
            "rule": "one obligation per (rule, construct / shape class / path) instance extracted from "
                    "the parsed source of /repo on this run; distinct = distinct (rule, key, construct) "
                    "triples; info-only listings are not counted",
            "samples": samples[:40],
            "obligations": len(real),
            "discharged": n_ok,
            "undecided": len(undec),
            "failing": len(fails),
            "known_findings_hit": known_hit,
            "new_violation_keys": new_keys,
            "rule_instances": {r: {"count": counts.get(r, 0), "frozen_minimum": self.min_instances.get(r, 0),
                                   "text": self.rule_text.get(r, "")} for r in sorted(set(counts) | set(self.min_instances))},
            "analysed": self.analysed,
            "exhaustive": self.exhaustive,
            "trusted_base": self.trusted,
            "checker_cmd": f"cd /verif && ./check {self.pid} --tier {self.tier}",
            "analysis_errors": errors,
        }
        cov.update(self.extra)
        ev = {
            "property_id": self.pid,
            "tier": self.tier,
            "seed": self.seed,
            "level": "other",
            "coverage": cov,
            "assumptions": self.assumptions,
            "wall_s": round(time.time() - self.t0, 3),
            "violations": len(new_keys),
        }
        d = OUT / "evidence"
        d.mkdir(parents=True, exist_ok=True)
        (d / f"{self.pid}.json").write_text(json.dumps(ev, indent=1, default=str))


def write_error_evidence(pid: str, tier: str, seed: int, msg: str, t0: float) -> None:
    d = OUT / "evidence"
    d.mkdir(parents=True, exist_ok=True)
    ev = {
        "property_id": pid, "tier": tier, "seed": seed, "level": "other",
        "coverage": {"explanation": "ANALYSIS-ERROR: " + msg, "evaluations": 0, "distinct_nontrivial": 0},
        "wall_s": round(time.time() - t0, 3), "violations": 0,
    }
    (d / f"{pid}.json").write_text(json.dumps(ev, indent=1))


class RenamedCheck:
    def __init__(self, chk: Check, mapping: Dict[str, str]):
        self._chk = chk
        self._map = dict(mapping)

    def _r(self, text: str) -> str:
        for a, b in self._map.items():
            if text == a or text.startswith(a + ":"):
                return b + text[len(a):]
        return text

    def __getattr__(self, name):
        return getattr(self._chk, name)

    def rule(self, rid, text, minimum=1):
        self._chk.rule(self._r(rid), text, minimum)

    def ok(self, rule, key, construct, detail="", where=""):
        self._chk.ok(self._r(rule), self._r(key), construct, detail, where)

    def fail(self, rule, key, construct, detail, witness=None, where=""):
        self._chk.fail(self._r(rule), self._r(key), construct, detail, witness, where)

    def undecided(self, rule, key, construct, detail="", where=""):
        self._chk.undecided(self._r(rule), self._r(key), construct, detail, where)

    def info(self, rule, key, construct, detail="", where=""):
        self._chk.info(self._r(rule), self._r(key), construct, detail, where)

    def verdict(self, cond, rule, key, construct, detail="", witness=None, where=""):
        self._chk.verdict(cond, self._r(rule), self._r(key), construct, detail, witness, where)
