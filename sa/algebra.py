"""E4 - algebraic normal form for value terms (syntactic; ring/field and exponent laws only).

Terms are nested tuples:
  ('lit', Fraction) | ('sym', name) | ('atom', key) |
  ('add', a, b) | ('sub', a, b) | ('mul', a, b) | ('div', a, b) | ('pow', a, b) | ('neg', a) |
  ('fn', name, a)
A normal form (NF) is a dict {mono: Fraction}; a mono is a sorted tuple of (base, exponent_canon)
pairs; exponent_canon is the canonical tuple of an NF.  Bases: ('sym',n) ('atom',k) ('lit',q)
('sum', canon) ('fn', name, canon).

Laws used: AC of + and *, distributivity, x^a * x^b = x^(a+b), (x*y)^e = x^e * y^e,
(b^x)^n = b^(x*n) for integer literal n only, a/b = a * b^-1, -(t) = (-1)*t, small non-negative
integer powers of sums are expanded.  Equality of NFs means "equal wherever both sides are defined".
Failure to prove equality is never by itself a violation (see differ_witness).
"""
from __future__ import annotations

import math
import random
from fractions import Fraction
from typing import Any, Dict, List, Optional, Tuple

Term = tuple
NF = Dict[tuple, Fraction]

ONE_EXP: tuple = (((), Fraction(1)),)  # canon of NF {(): 1}


def lit(x) -> Term:
    if isinstance(x, bool):
        x = int(x)
    if isinstance(x, float):
        if math.isnan(x) or math.isinf(x):
            return ("atom", f"nonfinite:{x}")
        return ("lit", Fraction(x))
    return ("lit", Fraction(x))


def canon(p: NF) -> tuple:
    return tuple(sorted(((m, c) for m, c in p.items()), key=repr))


def uncanon(c: tuple) -> NF:
    return {m: q for m, q in c}


def nf_const(q) -> NF:
    q = Fraction(q)
    return {(): q} if q != 0 else {}


def nf_is_const(p: NF) -> Optional[Fraction]:
    if not p:
        return Fraction(0)
    if len(p) == 1 and () in p:
        return p[()]
    return None


def nf_add(p: NF, q: NF, sign: int = 1) -> NF:
    out = dict(p)
    for m, c in q.items():
        v = out.get(m, Fraction(0)) + sign * c
        if v == 0:
            out.pop(m, None)
        else:
            out[m] = v
    return out


def _mono_mul(m1: tuple, m2: tuple) -> tuple:
    d: Dict[Any, NF] = {}
    for b, e in m1:
        d[b] = uncanon(e)
    for b, e in m2:
        if b in d:
            d[b] = nf_add(d[b], uncanon(e))
        else:
            d[b] = uncanon(e)
    out = []
    for b, e in d.items():
        if e:
            out.append((b, canon(e)))
    return tuple(sorted(out, key=repr))


def nf_mul(p: NF, q: NF) -> NF:
    out: NF = {}
    for m1, c1 in p.items():
        for m2, c2 in q.items():
            m = _mono_mul(m1, m2)
            v = out.get(m, Fraction(0)) + c1 * c2
            if v == 0:
                out.pop(m, None)
            else:
                out[m] = v
    return out


def _frac_pow(c: Fraction, n: int) -> Fraction:
    if n >= 0:
        return c ** n
    return Fraction(1) / (c ** (-n))


def nf_pow(p: NF, e: NF) -> NF:
    ec = nf_is_const(e)
    if ec is not None and ec == 0:
        return nf_const(1)
    if not p:
        return {}  # 0^e, e != 0 literal (formal)
    if ec is not None and ec.denominator == 1 and 0 < ec <= 6:
        out = nf_const(1)
        for _ in range(int(ec)):
            out = nf_mul(out, p)
        return out
    e_int = ec is not None and ec.denominator == 1
    if len(p) == 1:
        (m, c), = p.items()
        out = nf_const(1)
        # coefficient
        if c != 1:
            if e_int:
                out = nf_const(_frac_pow(c, int(ec)))
            else:
                out = {((("lit", c), canon(e)),): Fraction(1)}
        for b, x in m:
            xe = uncanon(x)
            if x == ONE_EXP or e_int:
                ne = nf_mul(xe, e)
                if ne:
                    out = nf_mul(out, {((b, canon(ne)),): Fraction(1)})
            else:
                inner = {((b, x),): Fraction(1)}
                out = nf_mul(out, {((("sum", canon(inner)), canon(e)),): Fraction(1)})
        return out
    return {((("sum", canon(p)), canon(e)),): Fraction(1)}


def normalize(t: Term, subst: Optional[Dict[str, Term]] = None, _d: int = 0) -> NF:
    k = t[0]
    if k == "lit":
        return nf_const(t[1])
    if k == "sym":
        if subst and t[1] in subst:
            return normalize(subst[t[1]], subst, _d + 1)
        return {((t, ONE_EXP),): Fraction(1)}
    if k == "atom":
        return {((t, ONE_EXP),): Fraction(1)}
    if k == "add":
        return nf_add(normalize(t[1], subst), normalize(t[2], subst))
    if k == "sub":
        return nf_add(normalize(t[1], subst), normalize(t[2], subst), -1)
    if k == "neg":
        return nf_mul(nf_const(-1), normalize(t[1], subst))
    if k == "mul":
        return nf_mul(normalize(t[1], subst), normalize(t[2], subst))
    if k == "div":
        return nf_mul(normalize(t[1], subst), nf_pow(normalize(t[2], subst), nf_const(-1)))
    if k == "pow":
        return nf_pow(normalize(t[1], subst), normalize(t[2], subst))
    if k == "fn":
        return {(((("fn", t[1], canon(normalize(t[2], subst)))), ONE_EXP),): Fraction(1)}
    if k == "mod":
        a, b = normalize(t[1], subst), normalize(t[2], subst)
        ca, cb = nf_is_const(a), nf_is_const(b)
        if ca is not None and cb is not None and cb != 0:
            return nf_const(ca % cb)
        return {(((("mod", canon(a), canon(b))), ONE_EXP),): Fraction(1)}
    raise ValueError(f"unknown term {t!r}")


def equal_nf(a: Term, b: Term, subst=None) -> bool:
    return not nf_add(normalize(a, subst), normalize(b, subst), -1)


# ---------------------------------------------------------------------- symbols / substitution
def symbols(t: Term, out=None) -> set:
    if out is None:
        out = set()
    if t[0] in ("sym", "atom"):
        out.add(t)
    elif t[0] == "lit":
        pass
    elif t[0] == "fn":
        symbols(t[2], out)
    else:
        for s in t[1:]:
            symbols(s, out)
    return out


def solve_for_symbol(t: Term, value: Fraction, subst=None) -> Optional[Tuple[str, Term]]:
    """Given fact  t == value  try to express one number symbol by the others (single monomial,
    symbol with exponent 1).  Returns (name, term) or None."""
    p = normalize(t, subst)
    p = nf_add(p, nf_const(value), -1)  # p == 0
    # look for a symbol s occurring linearly: p = a*s + rest with a a monomial not containing s
    syms = [s for s in symbols(t) if s[0] == "sym" and not (subst and s[1] in subst)]
    for s in sorted(syms):
        lin = {}
        rest = {}
        ok = True
        for m, c in p.items():
            occ = [(b, e) for b, e in m if b == s]
            deep = any(_mentions(b, s) or _mentions_canon(e, s) for b, e in m if b != s)
            if deep:
                ok = False
                break
            if not occ:
                rest[m] = c
            elif occ[0][1] == ONE_EXP:
                m2 = tuple(x for x in m if x[0] != s)
                lin[m2] = c
            else:
                ok = False
                break
        if ok and len(lin) == 1:
            (m2, a), = lin.items()
            # s = -rest / (a*m2)
            num = nf_mul(nf_const(-1), rest)
            den_inv = nf_pow({m2: a}, nf_const(-1))
            sol = nf_mul(num, den_inv)
            return s[1], nf_to_term(sol)
    return None


def _mentions(b, s) -> bool:
    if b == s:
        return True
    if b[0] == "sum":
        return _mentions_canon(b[1], s)
    if b[0] == "fn":
        return _mentions_canon(b[2], s)
    if b[0] == "mod":
        return _mentions_canon(b[1], s) or _mentions_canon(b[2], s)
    return False


def _mentions_canon(c, s) -> bool:
    for m, _q in c:
        for b, e in m:
            if _mentions(b, s) or _mentions_canon(e, s):
                return True
    return False


def nf_to_term(p: NF) -> Term:
    if not p:
        return lit(0)
    terms = []
    for m, c in sorted(p.items(), key=repr):
        t: Term = ("lit", c)
        for b, e in m:
            bt = _base_to_term(b)
            et = nf_to_term(uncanon(e))
            f = bt if e == ONE_EXP else ("pow", bt, et)
            t = f if t == ("lit", Fraction(1)) else ("mul", t, f)
        terms.append(t)
    out = terms[0]
    for t in terms[1:]:
        out = ("add", out, t)
    return out


def _base_to_term(b) -> Term:
    if b[0] in ("sym", "atom", "lit"):
        return b
    if b[0] == "sum":
        return nf_to_term(uncanon(b[1]))
    if b[0] == "fn":
        return ("fn", b[1], nf_to_term(uncanon(b[2])))
    if b[0] == "mod":
        return ("mod", nf_to_term(uncanon(b[1])), nf_to_term(uncanon(b[2])))
    raise ValueError(b)


# ---------------------------------------------------------------------- numeric evaluation of terms
class Undefined(Exception):
    pass


def evaluate(t: Term, env: Dict[tuple, float]) -> float:
    k = t[0]
    try:
        if k == "lit":
            return float(t[1])
        if k in ("sym", "atom"):
            if t not in env:
                raise Undefined(f"no value for {t}")
            return env[t]
        if k == "add":
            return evaluate(t[1], env) + evaluate(t[2], env)
        if k == "sub":
            return evaluate(t[1], env) - evaluate(t[2], env)
        if k == "neg":
            return -evaluate(t[1], env)
        if k == "mul":
            return evaluate(t[1], env) * evaluate(t[2], env)
        if k == "div":
            d = evaluate(t[2], env)
            if d == 0:
                raise Undefined("division by zero")
            return evaluate(t[1], env) / d
        if k == "pow":
            b = evaluate(t[1], env)
            e = evaluate(t[2], env)
            if b == 0 and e <= 0:
                raise Undefined("0^nonpositive")
            r = b ** e
            if isinstance(r, complex):
                raise Undefined("complex power")
            return r
        if k == "mod":
            d = evaluate(t[2], env)
            if d == 0:
                raise Undefined("modulo by zero")
            return evaluate(t[1], env) % d
        if k == "fn":
            v = evaluate(t[2], env)
            if t[1] == "int":
                return float(int(v))
            if t[1] == "sqrt":
                if v < 0:
                    raise Undefined("sqrt of negative")
                return math.sqrt(v)
            if t[1] == "abs":
                return abs(v)
            if t[1] == "sgn":
                return -1.0 if v < 0 else (1.0 if v > 0 else 0.0)
            if t[1] == "factorial":
                if v < 0 or v != int(v) or v > 20:
                    raise Undefined("factorial domain")
                return float(math.factorial(int(v)))
            raise Undefined(f"fn {t[1]}")
    except (OverflowError, ZeroDivisionError, ValueError) as e:
        raise Undefined(str(e))
    raise ValueError(f"unknown term {t!r}")


def term_str(t: Term) -> str:
    k = t[0]
    if k == "lit":
        q = t[1]
        return str(q.numerator) if q.denominator == 1 else f"{float(q):g}"
    if k == "sym":
        return str(t[1])
    if k == "atom":
        return str(t[1])
    if k == "neg":
        return f"-({term_str(t[1])})"
    if k == "fn":
        return f"{t[1]}({term_str(t[2])})"
    op = {"add": "+", "sub": "-", "mul": "*", "div": "/", "pow": "^", "mod": "%", "eq": "="}[k]
    return f"({term_str(t[1])} {op} {term_str(t[2])})"


def differ_witness(a: Term, b: Term, constraints=None, subst=None, tries: int = 400,
                   seed: int = 7, sampler=None, extra_syms=None) -> Tuple[str, Optional[Dict[str, float]]]:
    """Compare two terms numerically at sampled points that satisfy `constraints` (callable env->bool).
    Returns ('differ', env) with a witness, ('same', None) if all jointly defined samples agree
    (>= 12 defined samples), or ('unknown', None)."""
    rnd = random.Random(seed)
    if subst:
        a = apply_subst(a, subst)
        b = apply_subst(b, subst)
    syms = sorted(symbols(a) | symbols(b) | set(extra_syms or ()))
    defined = 0
    pools = [
        [1, 2, 3, 4, 5, 6, 7],
        [-3, -2, -1, 1, 2, 3, 5],
        [0.5, 1.5, 2.5, -0.5, 2, 3, -1.5],
        [0, 1, -1, 2, -2, 3, 4],
    ]
    for i in range(tries):
        if sampler is not None:
            env = sampler(rnd, syms, i)
            if env is None:
                continue
        else:
            pool = pools[i % len(pools)]
            env = {s: float(rnd.choice(pool)) for s in syms}
        if constraints is not None and not constraints(env):
            continue
        try:
            va = evaluate(a, env)
            vb = evaluate(b, env)
        except Undefined:
            continue
        defined += 1
        if not math.isclose(va, vb, rel_tol=1e-9, abs_tol=1e-9):
            return "differ", {term_str(k): v for k, v in env.items()} | {"lhs": va, "rhs": vb}
        if defined >= 40:
            break
    if defined >= 12:
        return "same", None
    return "unknown", None


def apply_subst(t: Term, subst: Dict[str, Term], _d: int = 0) -> Term:
    if _d > 40:
        return t
    k = t[0]
    if k == "sym":
        if t[1] in subst:
            return apply_subst(subst[t[1]], subst, _d + 1)
        return t
    if k in ("lit", "atom"):
        return t
    if k == "fn":
        return ("fn", t[1], apply_subst(t[2], subst, _d))
    return (k,) + tuple(apply_subst(s, subst, _d) for s in t[1:])
