"""Static round trip printer -> tokenizer contract -> parser over all depth-2 tree shapes (C04, C09).

For every (parent kind, left child form, right child form) the tree is built through the interpreted constructors,
`str()` of the root is interpreted from the printers' source, the text is tokenized by the specification tokenizer
(validated against the source by C11), the token list is fed to the interpreted parser, and the value term of the
re-parsed tree is compared with the value term of the original (E4).  Leaves are distinct variables / distinct primes.
"""
from __future__ import annotations

import itertools
import multiprocessing as mp
import os
from typing import Any, Dict, List, Optional, Tuple

from . import algebra as A
from .absint import (AbsRaise, BoundExceeded, Interp, Lst, Node, PathInfeasible, Rec, Render, Unsupported, explore)
from .heapterm import HeapView
from .model import Program
from .parsecases import _tstr, exc_in_contract, terms_equal, token_types
from .report import AnalysisError
from .rulecases import source_digest, _self_digest
from .summaries import Summaries

BINARY = ["EqualExpression", "AddExpression", "SubtractExpression", "MultiplyExpression", "DivideExpression",
          "PowerExpression"]
UNARY = ["NegateExpression", "SgnExpression", "FactorialExpression"]
FORMS = ["Var", "Const", "NegConst", "Add", "Subtract", "Multiply", "CompactMul", "CompactMulPow", "Divide", "Power",
         "PowerConst", "PowerLit", "Negate", "Factorial", "Sgn"]

_G: Dict[str, Any] = {}


def _setup(repo):
    if _G.get("repo") != repo:
        _G["repo"] = repo
        _G["prog"] = Program(repo)
        _G["S"] = Summaries(_G["prog"])
    return _G["prog"], _G["S"]


class Builder:
    def __init__(self, it: Interp, prog: Program):
        self.it = it
        self.prog = prog
        self.vars = iter("xyzwuvabcd")
        self.primes = iter([2, 3, 5, 7, 11, 13, 17, 19, 23])

    def mk(self, cls: str, *args):
        return self.it.instantiate(self.prog.cls(cls), list(args), {})

    def var(self):
        return self.mk("VariableExpression", next(self.vars))

    def const(self, neg=False):
        p = next(self.primes)
        return self.mk("ConstantExpression", -p if neg else p)

    def from_shape(self, sh: str, neg: bool = False):
        """A concrete tree for a shape string of the parser analysis, e.g. 'Add(Constant, Negate(Variable))'."""
        sh = sh.strip()
        if sh == "Constant":
            return self.const(neg)
        if sh == "Variable":
            return self.var()
        head, rest = sh.split("(", 1)
        assert rest.endswith(")"), sh
        rest = rest[:-1]
        args, depth, cur = [], 0, ""
        for ch in rest:
            if ch == "," and depth == 0:
                args.append(cur)
                cur = ""
                continue
            depth += ch == "("
            depth -= ch == ")"
            cur += ch
        args.append(cur)
        return self.mk(head.strip() + "Expression", *[self.from_shape(a, neg) for a in args])

    def form(self, f: str):
        if f.startswith("@"):
            return self.from_shape(f[2:], f[1] == "-")
        if f == "Var":
            return self.var()
        if f == "Const":
            return self.const()
        if f == "NegConst":
            return self.const(True)
        if f == "Add":
            return self.mk("AddExpression", self.var(), self.var())
        if f == "Subtract":
            return self.mk("SubtractExpression", self.var(), self.var())
        if f == "Multiply":
            return self.mk("MultiplyExpression", self.var(), self.var())
        if f == "CompactMul":
            return self.mk("MultiplyExpression", self.const(), self.var())
        if f == "CompactMulPow":
            return self.mk("MultiplyExpression", self.const(), self.mk("PowerExpression", self.var(), self.const()))
        if f == "Divide":
            return self.mk("DivideExpression", self.var(), self.var())
        if f == "Power":
            return self.mk("PowerExpression", self.var(), self.var())
        if f == "PowerConst":
            return self.mk("PowerExpression", self.var(), self.const())
        if f == "PowerLit":
            # a literal base: a minus sign written before it would join the literal
            return self.mk("PowerExpression", self.const(), self.var())
        if f == "Negate":
            return self.mk("NegateExpression", self.var())
        if f == "Factorial":
            return self.mk("FactorialExpression", self.const())
        if f == "Sgn":
            return self.mk("SgnExpression", self.var())
        if f.startswith("Negate:"):
            return self.mk("NegateExpression", self.form(f.split(":", 1)[1]))
        if f.startswith("Sgn:"):
            return self.mk("SgnExpression", self.form(f.split(":", 1)[1]))
        if f.startswith("CMP:"):
            # compact product  c * x^(exponent form)
            return self.mk("MultiplyExpression", self.const(), self.mk("PowerExpression", self.var(), self.form(f.split(":", 1)[1])))
        if f.startswith("Pow:"):
            # x^(exponent form)
            return self.mk("PowerExpression", self.var(), self.form(f.split(":", 1)[1]))
        if f.startswith("Bin:"):
            # a binary node over two arbitrary forms:  Bin:<Kind>/<left form>/<right form>
            kind, l, r = f.split(":", 1)[1].split("/")
            return self.mk(kind + "Expression", self.form(l), self.form(r))
        if f.startswith("Paren:"):
            # a sum / difference / product / quotient / power of two compound operands
            kind, inner = f.split(":", 1)[1].split("/")
            return self.mk(kind + "Expression", self.form(inner), self.var())
        raise AnalysisError(f)


def render_text(r) -> Optional[str]:
    if isinstance(r, str):
        return r
    if isinstance(r, Render):
        out = []
        for p in r.parts:
            if isinstance(p, str):
                out.append(p)
            elif p[0] == "node":
                s = render_text(p[2])
                if s is None:
                    return None
                out.append(s)
            else:
                return None
        return "".join(out)
    return None


def roundtrip_case(prog: Program, S: Summaries, parent: str, forms: Tuple[str, ...]) -> dict:
    from props.c11 import spec_tokens  # specification tokenizer (validated against the source by C11)
    types = token_types(prog)
    rec: Dict[str, Any] = {"parent": parent.replace("Expression", ""), "forms": list(forms)}

    def body(it: Interp):
        b = Builder(it, prog)
        if parent == "@shape":
            root = b.form(forms[0])
        else:
            kids = [b.form(f) for f in forms]
            root = b.mk(parent, *kids)
        it.root = root
        text = it.to_render(root)
        it.text = render_text(text)
        if it.text is None:
            raise Unsupported(f"printed form is not a concrete string: {text!r}")
        toks = spec_tokens(it.text, True, ["sgn"], types)
        if toks == "ValueError":
            raise AbsRaise("ValueError", "tokenizer", f"printed text {it.text!r} contains an unsupported character")
        tcls = prog.cls("Token")
        lst = []
        for v, t in toks:
            r = Rec(tcls)
            r.fields["value"] = v
            r.fields["type"] = t
            lst.append(r)

        def h_tokenize(it2, info, args, kwargs):
            return Lst(list(lst))
        it.hooks["Tokenizer.tokenize"] = h_tokenize
        parser = it.instantiate(prog.cls("ExpressionParser"), [], {})
        it.events.append(("phase", "reparse"))
        return it.call_function(prog.func("parser", "ExpressionParser.parse"), [parser, it.text], {})

    cfg = {"max_updepth": 0, "hooks": S.hooks(), "max_inline": 80, "max_steps": 60000}
    results = explore(prog, body, cfg, max_paths=50)
    if len(results) != 1:
        rec["outcome"] = "nondeterministic"
        rec["note"] = f"{len(results)} paths: " + "; ".join(r.cond[:80] for r in results[:3])
        return rec
    p = results[0]
    it = p.interp
    rec["text"] = getattr(it, "text", None)
    hv = HeapView(it, S.optable)
    if hasattr(it, "root"):
        try:
            rec["tree"] = hv.shape(it.root.cid, "cur")
            orig = hv.term(it.root.cid, "cur")
            rec["orig_term"] = _tstr(orig)
        except Exception as e:
            rec["outcome"] = "error"
            rec["note"] = f"{type(e).__name__}: {e}"
            return rec
    if p.outcome == "bound":
        rec["outcome"] = "bound"
        rec["note"] = p.note
        return rec
    if p.outcome == "raise":
        phase = "print"
        for e in it.events:
            if e[0] == "phase":
                phase = e[1]
        rec["outcome"] = "reparse-rejects" if phase == "reparse" else "print-raises"
        rec["exc"] = p.exc.exc
        rec["note"] = f"{p.exc.exc} at {p.exc.site}: {p.exc.detail[:120]}"
        return rec
    if not isinstance(p.value, Node):
        rec["outcome"] = "error"
        rec["note"] = f"parse returned {p.value!r}"
        return rec
    back = hv.term(p.value.cid, "cur")
    rec["back_term"] = _tstr(back)
    eq = terms_equal(orig, back)
    rec["outcome"] = "equal" if eq is True else ("differs" if eq is False else "undecided")
    return rec


def _worker(task):
    repo, parent, forms = task
    prog, S = _setup(repo)
    try:
        return roundtrip_case(prog, S, parent, forms)
    except (AnalysisError, Unsupported) as e:
        return {"parent": parent.replace("Expression", ""), "forms": list(forms), "outcome": "error", "note": str(e)}


def analyse_printer(repo: str, use_cache: bool = True, tier: str = "quick") -> List[dict]:
    import json
    from .report import CACHE, VERIF
    prog, S = _setup(repo)
    digest = source_digest(prog, extra="print" + tier + _self_digest())
    cache = CACHE / f"printcases-{digest}.json"
    if use_cache and cache.exists():
        try:
            return json.loads(cache.read_text())
        except Exception:
            pass
    tasks = []
    for parent in BINARY:
        for l in FORMS:
            for r in FORMS:
                tasks.append((str(prog.repo), parent, (l, r)))
    for parent in UNARY:
        for c in FORMS:
            if parent == "FactorialExpression" and c not in ("Const", "NegConst"):
                continue  # the parser and the rules only ever build the factorial of a literal
            tasks.append((str(prog.repo), parent, (c,)))
    # three levels: a negation / function of every form, and a binary node over a compound, as operand of each binary parent
    deep = [f"Negate:{f}" for f in FORMS if f != "Factorial"] + [f"Sgn:{f}" for f in ("Add", "Negate", "CompactMul")] + \
           [f"Paren:{k}/{i}" for k in ("Multiply", "Divide", "Power", "Subtract") for i in ("Add", "Negate", "CompactMul", "Power", "NegConst", "Const")] + \
           [f"Negate:Paren:{k}/{i}" for k in ("Multiply", "Divide", "Power") for i in ("Add", "Negate", "Const", "PowerLit", "Factorial",
                                                                                       "CompactMul", "CompactMulPow")] + \
           [f"Negate:Bin:Multiply/{i}/Multiply" for i in ("PowerLit", "Factorial", "Const")]
    exps = [f for f in FORMS if f not in ("Var", "Const")] + ["Paren:Power/Const", "Paren:Power/NegConst", "Negate:Multiply",
                                                              "Negate:Divide", "Negate:Power", "Paren:Multiply/Add", "Negate:Paren:Power/Const"]
    deep += [f"CMP:{e}" for e in exps] + [f"Pow:{e}" for e in exps if e.startswith(("Paren", "Negate:"))]
    for parent in BINARY:
        for d in deep:
            for sib in ("Var", "Const"):
                tasks.append((str(prog.repo), parent, (d, sib)))
                tasks.append((str(prog.repo), parent, (sib, d)))
    for d in deep:
        tasks.append((str(prog.repo), "NegateExpression", (d,)))
    if tier == "thorough":
        # systematic third level: every binary node over every pair of forms, plain and negated, as either operand of
        # every binary parent (sibling a variable / a literal) and as the operand of a negation
        inner = [f"Bin:{k}/{l}/{r}" for k in ("Add", "Subtract", "Multiply", "Divide", "Power") for l in FORMS for r in FORMS]
        have = {t[1:] for t in tasks}
        for parent in BINARY:
            for d in inner:
                for sib in ("Var", "Const"):
                    for forms in ((d, sib), (sib, d)):
                        if (parent, forms) not in have:
                            tasks.append((str(prog.repo), parent, forms))
        for d in inner:
            tasks.append((str(prog.repo), "NegateExpression", (d,)))
            tasks.append((str(prog.repo), "SgnExpression", (d,)))
    nproc = min(int(os.environ.get("VERIF_JOBS", "16")), os.cpu_count() or 1)
    ctx = mp.get_context("fork")
    with ctx.Pool(nproc) as pool:
        recs = pool.map(_worker, tasks, chunksize=8)
    try:
        cache.parent.mkdir(exist_ok=True)
        if str(prog.repo) == "/repo" and tier == "quick":
            for old in cache.parent.glob("printcases-*.json"):
                old.unlink()
        cache.write_text(json.dumps(recs))
    except Exception:
        pass
    return recs


def analyse_parser_shapes(repo: str, n_tokens: int = 5, use_cache: bool = True) -> List[dict]:
    """Round trip of every tree shape the interpreted parser builds from up to n_tokens tokens (both signs of the
    literals): the domain follows the parser's source, not a list of forms."""
    import json
    from .parsecases import analyse_parser
    from .report import CACHE, VERIF
    prog, S = _setup(repo)
    digest = source_digest(prog, extra=f"print-parser-shapes{n_tokens}" + _self_digest())
    cache = CACHE / f"printshapes-{digest}.json"
    if use_cache and cache.exists():
        try:
            return json.loads(cache.read_text())
        except Exception:
            pass
    shapes: Dict[str, str] = {}
    for r in analyse_parser(repo, n_tokens):
        if r.get("outcome") == "return" and r.get("shape") and "□" not in r["shape"] and "{" not in r["shape"]:
            shapes.setdefault(r["shape"], r.get("surface", ""))
    tasks = []
    for sh in sorted(shapes):
        tasks.append((str(prog.repo), "@shape", ("@+" + sh,)))
        if "Constant" in sh:
            tasks.append((str(prog.repo), "@shape", ("@-" + sh,)))
    nproc = min(int(os.environ.get("VERIF_JOBS", "16")), os.cpu_count() or 1)
    with mp.get_context("fork").Pool(nproc) as pool:
        recs = pool.map(_worker, tasks, chunksize=8)
    for r in recs:
        r["parsed_from"] = shapes.get(r["forms"][0][2:], "")
    try:
        cache.parent.mkdir(exist_ok=True)
        if str(prog.repo) == "/repo":
            for old in cache.parent.glob("printshapes-*.json"):
                old.unlink()
        cache.write_text(json.dumps(recs))
    except Exception:
        pass
    return recs
