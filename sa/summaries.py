"""Summaries (hooks) for the recursive library functions and external contracts used by E3.

Each summary's conformance to the source is itself a checked clause elsewhere (layered trust):
  clone()/clone_from_root()  - C13.R1-R4        evaluate()  - C05.R1-R5 (operator table)
  find_type()/all_changed()  - C14.R5           factor()    - C16.R4
External contracts (trusted base): numpy.min/max over a non-empty list return a member.
"""
from __future__ import annotations

import ast
from typing import Any, Dict, List, Optional

from . import algebra as A
from .absint import (ALL_KINDS, BIN, LEAF, UN, AbsRaise, BoundExceeded, Cell, CommonFactors, Dct, FactorDict,
                     Found, Ident, Interp, Lst, Node, Num, Opaque, Tup, Unsupported, _MISSING)
from .heapterm import HeapView
from .model import Program
from .tables import operator_table


def clone_copy_table(prog: Program) -> Dict[str, set]:
    """Which constructor-parameter attributes does the clone() chain of each class copy? (C13.R1)"""
    out: Dict[str, set] = {}
    for k in prog.concrete_kinds():
        copied = set()
        for c in prog.mro(prog.cls(k)):
            m = c.methods.get("clone")
            if m is None:
                continue
            for n in ast.walk(m.node):
                if isinstance(n, ast.Assign) and len(n.targets) == 1 and isinstance(n.targets[0], ast.Attribute) \
                        and isinstance(n.targets[0].value, ast.Name) and n.targets[0].value.id == "result":
                    v = n.value
                    attr = n.targets[0].attr
                    if isinstance(v, ast.Attribute) and isinstance(v.value, ast.Name) and v.value.id == "self" \
                            and v.attr == attr:
                        copied.add(attr)
            # constructor call with keyword/positional forwarding e.g. self.__class__(child_on_left=self.child_on_left)
            for n in ast.walk(m.node):
                if isinstance(n, ast.Call) and isinstance(n.func, ast.Attribute) and n.func.attr == "__class__":
                    for kw in n.keywords:
                        if isinstance(kw.value, ast.Attribute) and isinstance(kw.value.value, ast.Name) \
                                and kw.value.value.id == "self" and kw.value.attr == kw.arg:
                            copied.add(kw.arg)
        out[k] = copied
    return out


def _reflective_chain(prog: Program, kind: str) -> bool:
    for c in prog.mro(prog.cls(kind)):
        m = c.methods.get("clone")
        if m is None:
            continue
        for n in ast.walk(m.node):
            if isinstance(n, ast.Call):
                fn = n.func
                name = fn.id if isinstance(fn, ast.Name) else (fn.attr if isinstance(fn, ast.Attribute) else "")
                if name in ("setattr", "vars", "copy", "deepcopy", "update", "__setattr__"):
                    return True
            if isinstance(n, ast.Attribute) and n.attr == "__dict__":
                return True
    return False


def _semantic_copied(prog: Program, kind: str) -> set:
    """Payload attributes that equal the original's on the result of the interpreted clone() of `kind`, on every path
    (children's clones are stand-in nodes)."""
    from .absint import explore
    m = prog.find_method(kind, "clone")
    if m is None:
        return set()
    quals = [f"{c.name}.clone" for c in prog.classes.values() if "clone" in c.methods]

    def body(it: Interp):
        node = it.new_summary(frozenset([kind]), "arg")
        it.arg = node

        def h(it2, info, args, kwargs):
            if isinstance(args[0], Node) and args[0].cid == node.cid:
                return NotImplemented
            c = it2.new_cell(it2.kinds_of(it2.cell(args[0])), True, "alloc")
            c.cur["parent"] = None
            return Node(c.cid)
        h.total = False
        for q in quals:
            it.hooks[q] = h
        return it.call_function(m, [node], {})
    copied = None
    try:
        for p in explore(prog, body, {"max_updepth": 0}, max_paths=400):
            if p.outcome != "return" or not isinstance(p.value, Node):
                continue
            it = p.interp
            oc, rc = it.cells[it.arg.cid], it.cells[p.value.cid]
            here = set()
            for f in ("id", "value", "identifier", "child_on_left", "classes"):
                if f in rc.cur:
                    ov = oc.entry.get(f, oc.cur.get(f, _MISSING))
                    rv = rc.cur[f]
                    same = rv is ov or rv == ov or (isinstance(ov, Num) and isinstance(rv, Num) and ov.term == rv.term) or \
                        (isinstance(ov, Ident) and isinstance(rv, Ident) and ov.name == rv.name)
                    if same or f not in oc.entry:
                        here.add(f)
            copied = here if copied is None else (copied & here)
    except Exception:  # noqa: BLE001 - an uninterpretable chain leaves the syntactic table as it is
        return set()
    return copied or set()


class _Total:
    """A hook that handles every call it receives for node receivers (safe for virtual dispatch without
    splitting the receiver's kind set)."""
    total = True

    def __init__(self, fn):
        self.fn = fn

    def __call__(self, *a, **k):
        return self.fn(*a, **k)

    def __eq__(self, o):
        return isinstance(o, _Total) and o.fn == self.fn

    def __hash__(self):
        return hash(self.fn)


class Summaries:
    def __init__(self, prog: Program):
        self.prog = prog
        self.optable = operator_table(prog)
        self.clone_table = clone_copy_table(prog)
        for k in list(self.clone_table):
            if _reflective_chain(prog, k):
                # the chain copies attributes through vars() / setattr() / copy: what arrives on the clone is read off the
                # interpreted clone() of that class (C13.R2 judges the same interpretation)
                self.clone_table[k] = self.clone_table[k] | _semantic_copied(prog, k)

    def hooks(self) -> Dict[str, Any]:
        h: Dict[str, Any] = {}
        for q in ("BinaryTreeNode.clone", "MathExpression.clone", "ConstantExpression.clone",
                  "VariableExpression.clone", "UnaryExpression.clone", "BinaryExpression.clone"):
            h[q] = self.h_clone
        h["MathExpression.clone_from_root"] = self.h_clone_from_root
        for q in ("MathExpression.evaluate", "BinaryExpression.evaluate", "UnaryExpression.evaluate",
                  "ConstantExpression.evaluate", "VariableExpression.evaluate"):
            h[q] = self.h_evaluate
        h["MathExpression.find_type"] = self.h_find_type
        h["MathExpression.all_changed"] = self.h_all_changed
        h["mathy_core/util.py:factor"] = self.h_factor
        h["listcomp"] = self.h_listcomp
        return {k: _Total(v) if k != "listcomp" else v for k, v in h.items()}

    # ------------------------------------------------------------------ clone
    def _do_clone(self, it: Interp, root_cid: int) -> Dict[int, int]:
        op = it.next_clone_op
        it.next_clone_op += 1
        m: Dict[int, int] = {}
        it.clone_ops[op] = m

        def rec(cid: int, parent: Optional[Node], depth: int) -> int:
            if depth > 40:
                raise BoundExceeded("clone depth")
            orig = it.cells[cid]
            kinds = it.kinds_of(orig)
            c = it.new_cell(kinds, False, "clone")
            c.mirror = (op, cid, False)
            c.updepth = orig.updepth
            c.alloc_site = it.site
            m[cid] = c.cid
            it.events.append(("alloc", c.cid, "clone", it.site, tuple(it.call_stack)))
            c.cur["parent"] = parent
            c.entry["parent"] = parent
            for f, v in list(orig.cur.items()):
                if f == "parent" or f.startswith("__"):
                    continue
                if f in ("left", "right"):
                    if isinstance(v, Node):
                        if v.cid in m:
                            raise AbsRaise("RecursionError", it.site, "clone of a cyclic / shared structure")
                        ch = rec(v.cid, Node(c.cid), depth + 1)
                        c.cur[f] = Node(ch)
                    else:
                        c.cur[f] = v
                    c.entry[f] = c.cur[f]
                elif f in ("id",):
                    c.cur[f] = v
                    c.entry[f] = v
                elif f in ("value", "identifier", "child_on_left"):
                    copied = all(f in self.clone_table.get(k, set()) for k in kinds if self._has_attr(k, f))
                    if copied:
                        c.cur[f] = v
                    else:
                        c.cur[f] = {"value": None, "identifier": None, "child_on_left": False}[f]
                    c.entry[f] = c.cur[f]
            if kinds <= UN and "child_on_left" not in c.cur:
                # not materialised on the original: default of W is False on both sides
                pass
            return c.cid

        rec(root_cid, None, 0)
        return m

    def _has_attr(self, kind: str, f: str) -> bool:
        if f == "value":
            return kind == "ConstantExpression"
        if f == "identifier":
            return kind == "VariableExpression"
        if f == "child_on_left":
            return kind in UN
        return True

    def h_clone(self, it: Interp, info, args, kwargs):
        selfv = args[0]
        if not isinstance(selfv, Node) or len(args) != 1:
            return NotImplemented
        m = self._do_clone(it, selfv.cid)
        it.events.append(("clone", selfv.cid, m[selfv.cid], it.site))
        return Node(m[selfv.cid])

    def h_clone_from_root(self, it: Interp, info, args, kwargs):
        selfv = args[0]
        if not isinstance(selfv, Node):
            return NotImplemented
        if len(args) > 1 and args[1] is not None and not (isinstance(args[1], Node) and args[1].cid == selfv.cid):
            raise Unsupported("clone_from_root(node) with a node other than the receiver")
        cid = selfv.cid
        seen = set()
        while True:
            if cid in seen:
                raise AbsRaise("RecursionError", it.site, "parent cycle in clone_from_root")
            seen.add(cid)
            p = it.read_field(it.cells[cid], "parent")
            if isinstance(p, Node):
                cid = p.cid
            else:
                break
        m = self._do_clone(it, cid)
        it.events.append(("clone_from_root", selfv.cid, cid, it.site))
        if selfv.cid not in m:
            raise AbsRaise("Exception", it.site, "cloning root hierarchy did not clone this node")
        return Node(m[selfv.cid])

    # ------------------------------------------------------------------ evaluate
    def h_evaluate(self, it: Interp, info, args, kwargs):
        selfv = args[0]
        if not isinstance(selfv, Node):
            return NotImplemented
        ctx = args[1] if len(args) > 1 else kwargs.get("context")
        it.events.append(("evaluate", selfv.cid, it.site))
        v = self._eval(it, selfv.cid, ctx, 0)
        return v

    def _single_kind(self, it: Interp, cell: Cell, why: str) -> str:
        ks = sorted(it.kinds_of(cell))
        if len(ks) > 1:
            i = it.choose(len(ks), f"kind({cell.cid}) for {why}", [k.replace("Expression", "") for k in ks])
            it.refine_node(cell, frozenset([ks[i]]))
            return ks[i]
        return ks[0]

    def _eval(self, it: Interp, cid: int, ctx, depth: int):
        if depth > 8:
            raise BoundExceeded("evaluate depth")
        cell = it.cells[cid]
        k = self._single_kind(it, cell, "evaluate")
        site = f"evaluate({k.replace('Expression', '')})"
        if k == "ConstantExpression":
            v = it.read_field(cell, "value")
            if v is None or v is _MISSING:
                raise AbsRaise("AssertionError", "ConstantExpression.evaluate", "value is None")
            return v
        if k == "VariableExpression":
            if ctx is None:
                raise AbsRaise("ValueError", "VariableExpression.evaluate", "variable without a value")
            return Opaque("context-value")
        sem = self.optable.get(k, {})
        op = sem.get("op", "unknown")
        if k in BIN:
            l = it.read_field(cell, "left")
            r = it.read_field(cell, "right")
            if not isinstance(l, Node) or not isinstance(r, Node):
                raise AbsRaise("ValueError", "BinaryExpression._check", "left/right children must both be valid")
            lv = self._eval(it, l.cid, ctx, depth + 1)
            rv = self._eval(it, r.cid, ctx, depth + 1)
            if sem.get("args") == "swapped":
                lv, rv = rv, lv
            lt, rt = it.to_term(lv), it.to_term(rv)
            if lt is None or rt is None:
                return Opaque("eval")
            if op == "eq":
                same = it.sign_query(("sub", lt, rt), frozenset(["zero"]), f"eq-sides({A.term_str(lt)},{A.term_str(rt)})")
                if not same:
                    raise AbsRaise(sem.get("exc", "ValueError"), "EqualExpression.operate",
                                   "Equation did not hold when evaluated")
                return lv
            if op == "div":
                if sem.get("zero_guard"):
                    if it.sign_query(rt, frozenset(["zero"]), f"zero-divisor({A.term_str(rt)})"):
                        return Num(("atom", "nan"))
                return self._num(("div", lt, rt))
            if op == "pow":
                if sem.get("via", "").startswith("numpy"):
                    if it.sign_query(rt, frozenset(["neg"]), f"negative-exponent({A.term_str(rt)})"):
                        if it.atom(f"integer-operands({A.term_str(lt)},{A.term_str(rt)})"):
                            raise AbsRaise("ValueError", "PowerExpression.operate",
                                           "numpy: Integers to negative integer powers are not allowed")
                return self._num(("pow", lt, rt))
            if op in ("add", "sub", "mul"):
                return self._num((op, lt, rt))
            return Num(("fn", f"{k}:{op}", ("add", lt, rt)))
        if k in UN:
            col = it.read_field(cell, "child_on_left")
            ch = it.read_field(cell, "left" if col is True else "right")
            if not isinstance(ch, Node):
                raise AbsRaise("ValueError", "UnaryExpression.evaluate", "cannot evaluate unary expression without a valid child")
            cv = self._eval(it, ch.cid, ctx, depth + 1)
            ct = it.to_term(cv)
            if ct is None:
                return Opaque("eval")
            if op == "neg":
                return self._num(("neg", ct))
            if op == "factorial":
                if it.sign_query(ct, frozenset(["neg"]), f"negative-factorial({A.term_str(ct)})"):
                    raise AbsRaise("ValueError", "FactorialExpression.operate", "factorial() not defined for negative values")
                return Num(("fn", "factorial", ct))
            if op in ("abs", "sgn"):
                return Num(("fn", op, ct))
            return Num(("fn", f"{k}:{op}", ct))
        raise Unsupported(f"evaluate of {k}")

    def _num(self, term):
        p = A.normalize(term)
        c = A.nf_is_const(p)
        if c is not None:
            return int(c) if c.denominator == 1 else float(c)
        return Num(term)

    # ------------------------------------------------------------------ find_type / all_changed
    def h_find_type(self, it: Interp, info, args, kwargs):
        selfv, T = args[0], args[1]
        if not isinstance(selfv, Node):
            return NotImplemented
        tname = T.info.name
        hv = HeapView(it, self.optable)
        definite: List[Node] = []
        maybe = False
        stack = [selfv.cid]
        seen = set()
        while stack:
            cid = stack.pop()
            if cid in seen:
                continue
            seen.add(cid)
            ks = it.kinds_of(it.cells[cid])
            structural = hv.is_structural(cid, "cur")
            sub = frozenset(k for k in ks if self.prog.is_subclass(k, tname))
            if sub == ks:
                definite.append(Node(cid))
            elif sub:
                if structural or ks <= LEAF:
                    # a materialised node: its class is a fact of the tree, split on it (like isinstance)
                    if it.isinstance_(Node(cid), T):
                        definite.append(Node(cid))
                    ks = it.kinds_of(it.cells[cid])
                else:
                    maybe = True
            if not structural:
                if not (ks <= LEAF):
                    maybe = True
                continue
            for s in ("left", "right"):
                v, _ = hv.get(cid, s, "cur")
                if isinstance(v, Node):
                    stack.append(v.cid)
                elif v is _MISSING:
                    maybe = True
        if not maybe:
            # in-order list of the instances (the walk above is not in-order: sort by in-order position)
            order = self._inorder(it, hv, selfv.cid)
            definite.sort(key=lambda n: order.index(n.cid) if n.cid in order else 10 ** 6)
            return Lst(definite)
        return Found(definite, maybe, f"find_type({tname.replace('Expression', '')},{selfv.cid})")

    def _inorder(self, it: Interp, hv: HeapView, cid: int, depth: int = 0) -> List[int]:
        if depth > 60:
            return []
        out: List[int] = []
        l, _ = hv.get(cid, "left", "cur")
        r, _ = hv.get(cid, "right", "cur")
        if isinstance(l, Node):
            out += self._inorder(it, hv, l.cid, depth + 1)
        out.append(cid)
        if isinstance(r, Node):
            out += self._inorder(it, hv, r.cid, depth + 1)
        return out

    def h_all_changed(self, it: Interp, info, args, kwargs):
        selfv = args[0]
        if isinstance(selfv, Node):
            it.events.append(("all_changed", selfv.cid, it.site))
            return None
        return NotImplemented

    # ------------------------------------------------------------------ factor / common factors
    def h_factor(self, it: Interp, info, args, kwargs):
        v = args[0] if args else kwargs.get("value")
        if isinstance(v, bool):
            v = int(v)
        if isinstance(v, (int, float)):
            return self._factor_concrete(v)
        if isinstance(v, Num):
            if it.sign_query(v.term, frozenset(["zero"]), f"zero({A.term_str(v.term)})"):
                return Dct()
            fd = FactorDict(v.term)
            fd.known_keys = [A.lit(1), v.term]
            return fd
        raise Unsupported(f"factor({v!r})")

    def _factor_concrete(self, value) -> Dct:
        # contract of util.factor on concrete numbers (C16.R4): both arrangements of every divisor pair
        import math
        if value == 0 or value != value:
            return Dct()
        d = Dct()
        if value < 0:
            d.items[1] = value
            return d
        d.items[1] = value
        d.items[value] = 1
        s = int(math.sqrt(value) + 1)
        for i in range(2, s):
            if value % i == 0:
                d.items[i] = value / i
                d.items[value / i] = i
        return d

    def h_listcomp(self, it: Interp, e: ast.ListComp, iterable, env):
        if not isinstance(iterable, (FactorDict, Dct)):
            return NotImplemented
        g = e.generators[0]
        # [k for k in R if k in L]
        if not (isinstance(g.target, ast.Name) and isinstance(e.elt, ast.Name) and e.elt.id == g.target.id
                and len(g.ifs) == 1 and isinstance(g.ifs[0], ast.Compare) and len(g.ifs[0].ops) == 1
                and isinstance(g.ifs[0].ops[0], ast.In) and isinstance(g.ifs[0].left, ast.Name)
                and g.ifs[0].left.id == g.target.id):
            return NotImplemented
        other = it.eval(g.ifs[0].comparators[0], env)
        if isinstance(iterable, Dct) and isinstance(other, Dct):
            keys = [k for k in iterable.items if any(it._equal(k, k2) for k2 in other.items)]
            return Lst(keys)
        if not isinstance(other, (FactorDict, Dct)):
            return NotImplemented
        # at least one symbolic table: both are tables of non-zero numbers unless an empty Dct
        for side in (iterable, other):
            if isinstance(side, Dct) and not side.items:
                return Lst([])

        def only_one(d) -> bool:
            return isinstance(d, Dct) and list(d.items.keys()) == [1]
        if only_one(iterable) or only_one(other):
            gval: Any = 1
        else:
            memo = getattr(it, "g_memo", None)
            if memo is None:
                memo = it.g_memo = {}
            mkey = (it._fd_str(iterable) if isinstance(iterable, FactorDict) else repr(sorted(map(repr, iterable.items))),
                    it._fd_str(other) if isinstance(other, FactorDict) else repr(sorted(map(repr, other.items))))
            if mkey not in memo:
                memo[mkey] = Num(("sym", it.fresh_sym("g")))
            gval = memo[mkey]
            # g is a member of both tables, hence non-zero
            it.assume_sign(gval.term, frozenset(["neg", "pos"]))
        kt = it.to_term(gval)
        for side in (iterable, other):
            if isinstance(side, FactorDict):
                side.known_keys = list(getattr(side, "known_keys", [])) + [kt]
            elif isinstance(gval, Num):
                side.members = list(getattr(side, "members", [])) + [kt]
        cf = CommonFactors(iterable, other, gval)
        return cf


def lookup_in_concrete_table(it: Interp, d: Dct, k, total):
    """Subscript of a concrete factor table by a symbolic common factor g: value total/g."""
    kt = it.to_term(k)
    return Num(("div", A.lit(total), kt))
