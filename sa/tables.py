"""E6 - table extractors (constant folding / partial evaluation over finite domains; no heap)."""
from __future__ import annotations

import ast
from typing import Any, Dict, List, Optional, Tuple

from .model import Program, const_fold, unparse, stmt_key
from .report import AnalysisError

BINOP_NAMES = {ast.Add: "add", ast.Sub: "sub", ast.Mult: "mul", ast.Div: "div", ast.Pow: "pow",
               ast.FloorDiv: "floordiv", ast.Mod: "mod"}


def returns_of(fn: ast.FunctionDef) -> List[ast.Return]:
    out = []
    for n in ast.walk(fn):
        if isinstance(n, ast.Return):
            out.append(n)
    return out


def name_literal(prog: Program, cls_name: str) -> Optional[str]:
    """The literal returned by the class's `name` property, if it is a plain string literal."""
    m = prog.find_method(cls_name, "name")
    if m is None:
        return None
    rets = returns_of(m.node)
    if len(rets) == 1 and isinstance(rets[0].value, ast.Constant) and isinstance(rets[0].value.value, str):
        return rets[0].value.value
    return None


def operate_semantics(prog: Program, cls_name: str) -> Dict[str, Any]:
    """Classify the body of `operate` of a node class.

    Returns {'op': add|sub|mul|div|pow|neg|eq|factorial|abs|sgn|unknown, 'args': 'in-order'|'swapped'|...,
             'via': 'python'|'numpy:<fn>'|'math:<fn>', 'raises': bool, 'zero_guard': bool, 'detail': str}"""
    m = prog.find_method(cls_name, "operate")
    if m is None or m.cls is None:
        raise AnalysisError(f"{cls_name}.operate vanished")
    fn = m.node
    params = [a.arg for a in fn.args.args][1:]
    info: Dict[str, Any] = {"op": "unknown", "args": "?", "via": "python", "raises": False,
                            "zero_guard": False, "detail": "", "where": m.where, "params": params}
    has_raise = any(isinstance(n, ast.Raise) for n in ast.walk(fn))
    info["raises"] = has_raise
    rets = returns_of(fn)
    body = [s for s in fn.body if not (isinstance(s, ast.Expr) and isinstance(s.value, ast.Constant))]

    def classify_expr(e: ast.expr) -> Optional[Tuple[str, str, str]]:
        # (op, args, via)
        if isinstance(e, ast.BinOp) and type(e.op) in BINOP_NAMES:
            l, r = e.left, e.right
            if isinstance(l, ast.Name) and isinstance(r, ast.Name) and len(params) == 2:
                if (l.id, r.id) == (params[0], params[1]):
                    return BINOP_NAMES[type(e.op)], "in-order", "python"
                if (l.id, r.id) == (params[1], params[0]):
                    return BINOP_NAMES[type(e.op)], "swapped", "python"
            return None
        if isinstance(e, ast.UnaryOp) and isinstance(e.op, ast.USub) and isinstance(e.operand, ast.Name) \
                and len(params) == 1 and e.operand.id == params[0]:
            return "neg", "in-order", "python"
        if isinstance(e, ast.Call):
            fname = unparse(e.func)
            argn = []
            for a in e.args:
                # allow int(value) wrappers
                if isinstance(a, ast.Call) and isinstance(a.func, ast.Name) and a.func.id in ("int", "float") \
                        and len(a.args) == 1 and isinstance(a.args[0], ast.Name):
                    argn.append(a.args[0].id)
                elif isinstance(a, ast.Name):
                    argn.append(a.id)
                else:
                    argn.append("?")
            order = "in-order" if argn == params else ("swapped" if argn == params[::-1] else "other")
            table = {"np.power": ("pow", "numpy:power"), "numpy.power": ("pow", "numpy:power"),
                     "np.absolute": ("abs", "numpy:absolute"), "np.abs": ("abs", "numpy:abs"),
                     "abs": ("abs", "python"), "math.factorial": ("factorial", "math:factorial"),
                     "pow": ("pow", "python"), "math.pow": ("pow", "math:pow"),
                     "np.add": ("add", "numpy:add"), "np.subtract": ("sub", "numpy:subtract"),
                     "np.multiply": ("mul", "numpy:multiply"), "np.divide": ("div", "numpy:divide"),
                     "np.negative": ("neg", "numpy:negative"), "np.sign": ("sgn", "numpy:sign"),
                     "operator.add": ("add", "python"), "operator.sub": ("sub", "python"),
                     "operator.mul": ("mul", "python"), "operator.truediv": ("div", "python")}
            if fname in table:
                return table[fname][0], order, table[fname][1]
        return None

    if len(body) == 1 and isinstance(body[0], ast.Return) and body[0].value is not None:
        c = classify_expr(body[0].value)
        if c:
            info["op"], info["args"], info["via"] = c
        return info
    # divide: if two == 0: return float('nan') else: return one / two
    if len(body) == 1 and isinstance(body[0], ast.If) and len(params) == 2:
        st = body[0]
        t = st.test
        zero_test = (isinstance(t, ast.Compare) and len(t.ops) == 1 and isinstance(t.ops[0], ast.Eq)
                     and isinstance(t.left, ast.Name) and t.left.id == params[1]
                     and isinstance(t.comparators[0], ast.Constant) and t.comparators[0].value == 0)
        if zero_test and len(st.body) == 1 and isinstance(st.body[0], ast.Return):
            rv = st.body[0].value
            is_nan = (isinstance(rv, ast.Call) and unparse(rv.func) == "float" and len(rv.args) == 1
                      and isinstance(rv.args[0], ast.Constant) and str(rv.args[0].value).lower() == "nan") \
                or unparse(rv) in ("math.nan", "np.nan", "numpy.nan")
            rest = st.orelse if st.orelse else []
            if is_nan and len(rest) == 1 and isinstance(rest[0], ast.Return):
                c = classify_expr(rest[0].value)
                if c:
                    info["op"], info["args"], info["via"] = c
                    info["zero_guard"] = True
                    return info
    # equal: if one != two: raise ValueError ; return one
    if len(params) == 2 and len(body) == 2 and isinstance(body[0], ast.If) and isinstance(body[1], ast.Return):
        t = body[0].test
        ne = (isinstance(t, ast.Compare) and len(t.ops) == 1 and isinstance(t.ops[0], ast.NotEq)
              and {unparse(t.left), unparse(t.comparators[0])} == set(params))
        raises = len(body[0].body) == 1 and isinstance(body[0].body[0], ast.Raise) and not body[0].orelse
        if ne and raises and isinstance(body[1].value, ast.Name) and body[1].value.id in params:
            exc = body[0].body[0].exc
            info["op"] = "eq"
            info["args"] = "in-order"
            info["exc"] = unparse(exc.func) if isinstance(exc, ast.Call) else unparse(exc)
            return info
    # sgn: if value < 0: return -1 ; if value > 0: return 1 ; return 0
    if len(params) == 1:
        p = params[0]
        branches = {}
        ok = True
        final = None
        for st in body:
            if isinstance(st, ast.If) and not st.orelse and len(st.body) == 1 and isinstance(st.body[0], ast.Return):
                t = st.test
                if (isinstance(t, ast.Compare) and len(t.ops) == 1 and isinstance(t.left, ast.Name) and t.left.id == p
                        and isinstance(t.comparators[0], ast.Constant) and t.comparators[0].value == 0):
                    try:
                        branches[type(t.ops[0]).__name__] = ast.literal_eval(st.body[0].value)
                    except Exception:
                        ok = False
                else:
                    ok = False
            elif isinstance(st, ast.Return):
                try:
                    final = ast.literal_eval(st.value)
                except Exception:
                    ok = False
            else:
                ok = False
        if ok and branches.get("Lt") == -1 and branches.get("Gt") == 1 and final == 0 and len(branches) == 2:
            info["op"] = "sgn"
            info["args"] = "in-order"
            return info
    info["detail"] = "unrecognised operate body: " + stmt_key(fn)[:200]
    return info


def operate_semantics_e3(prog: Program, cls_name: str) -> Dict[str, Any]:
    """Classify `operate` by interpreting its body on symbolic operands (robust to refactoring)."""
    from . import algebra as A
    from .absint import Interp, Num, explore, AbsRaise
    m = prog.find_method(cls_name, "operate")
    if m is None or m.cls is None:
        raise AnalysisError(f"{cls_name}.operate vanished")
    binary = prog.is_subclass(cls_name, "BinaryExpression")
    one, two = ("sym", "one"), ("sym", "two")
    info: Dict[str, Any] = {"op": "unknown", "args": "in-order", "via": "python", "raises": False, "zero_guard": False,
                            "detail": "", "where": m.where}

    def body(it: Interp):
        node = it.new_summary(frozenset([cls_name]), "arg")
        it.hooks["ext:math.isclose"] = lambda it2, path, args, kwargs: it2.sign_query(
            ("sub", it2.to_term(args[0]), it2.to_term(args[1])), frozenset(["zero"]), "isclose-eq") or it2.atom("within-tolerance")
        return it.call_function(m, [node, Num(one)] + ([Num(two)] if binary else []), {})

    try:
        paths = explore(prog, body, {"max_updepth": 0}, max_paths=64)
    except AnalysisError as e:
        info["detail"] = f"operate body not interpretable: {e}"
        return info
    exts = sorted({e[1] for p in paths for e in p.interp.events if e[0] == "ext"})
    for e in exts:
        if e.startswith("numpy."):
            info["via"] = "numpy:" + e.split(".", 1)[1]
        elif e.startswith("math."):
            info["via"] = "math:" + e.split(".", 1)[1]
    rets = [p for p in paths if p.outcome == "return"]
    raises = [p for p in paths if p.outcome == "raise"]
    info["raises"] = bool(raises)

    def strip_int(t):
        if t[0] == "fn" and t[1] == "int":
            return strip_int(t[2])
        if t[0] in ("lit", "sym", "atom"):
            return t
        if t[0] == "fn":
            return ("fn", t[1], strip_int(t[2]))
        return (t[0],) + tuple(strip_int(x) for x in t[1:])

    def term_of(p):
        t = p.interp.to_term(p.value)
        return strip_int(t) if t is not None else None

    def eqv(t, u) -> bool:
        try:
            return A.equal_nf(t, u)
        except Exception:
            return False
    if binary:
        cands = [("add", ("add", one, two)), ("sub", ("sub", one, two)), ("mul", ("mul", one, two)),
                 ("div", ("div", one, two)), ("pow", ("pow", one, two))]
        swapped = [("sub", ("sub", two, one)), ("div", ("div", two, one)), ("pow", ("pow", two, one))]
        if len(rets) == 1 and not raises:
            t = term_of(rets[0])
            if t is not None:
                for op, want in cands:
                    if eqv(t, want):
                        info["op"] = op
                        return info
                for op, want in swapped:
                    if eqv(t, want):
                        info["op"], info["args"] = op, "swapped"
                        return info
        # guarded division: NaN exactly on a zero divisor
        if len(rets) == 2 and not raises:
            nan = [p for p in rets if term_of(p) == ("atom", "nonfinite:nan")]
            div = [p for p in rets if term_of(p) is not None and eqv(term_of(p), ("div", one, two))]
            if len(nan) == 1 and len(div) == 1:
                key, flip, c = nan[0].interp._canon_signed(two)
                if c is not None and c == 0:
                    info["op"], info["zero_guard"] = "div", True
                    return info
        # equation: operand when equal, raise otherwise
        if rets and raises and all(term_of(p) is not None and (eqv(term_of(p), one) or eqv(term_of(p), two)) for p in rets):
            info["op"] = "eq"
            info["exc"] = raises[0].exc.exc
            return info
    else:
        if len(rets) == 1 and not raises:
            t = term_of(rets[0])
            if t is not None:
                if eqv(t, ("neg", one)):
                    info["op"] = "neg"
                    return info
                for fn in ("abs", "factorial"):
                    if t == ("fn", fn, one):
                        info["op"] = fn
                        return info
        if len(rets) == 3 and not raises:
            vals = set()
            for p in rets:
                t = term_of(p)
                c = A.nf_is_const(A.normalize(t)) if t is not None else None
                key, flip, cc = p.interp._canon_signed(one)
                if cc is not None:
                    s = "zero" if cc == 0 else ("neg" if cc < 0 else "pos")
                else:
                    al = p.interp.num_facts.get(key, frozenset())
                    if flip:
                        al = frozenset({"neg": "pos", "pos": "neg", "zero": "zero"}[a] for a in al)
                    s = next(iter(al)) if len(al) == 1 else "?"
                vals.add((s, c))
            from fractions import Fraction
            if vals == {("neg", Fraction(-1)), ("pos", Fraction(1)), ("zero", Fraction(0))}:
                info["op"] = "sgn"
                return info
    info["detail"] = f"operate body not recognised as an operator ({len(rets)} returning / {len(raises)} raising paths)"
    return info


def operator_table(prog: Program) -> Dict[str, Dict[str, Any]]:
    out = {}
    for k in prog.concrete_kinds():
        if prog.is_subclass(k, "BinaryExpression") or prog.is_subclass(k, "UnaryExpression"):
            out[k] = operate_semantics_e3(prog, k)
    return out
