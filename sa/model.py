"""E0 - program model of mathy_core built from source text only (ast), never imported."""
from __future__ import annotations

import ast
import json
from pathlib import Path
from typing import Any, Dict, Iterable, List, Optional, Set, Tuple

from .report import AnalysisError, REPO

PKG = "mathy_core"
MODULES = [
    "tree", "types", "expressions", "tokenizer", "parser", "rule", "util", "layout", "problems",
    "testing",
    "rules.__init__", "rules.associative_swap", "rules.balanced_move", "rules.commutative_swap",
    "rules.constants_simplify", "rules.distributive_factor_out", "rules.distributive_multiply_across",
    "rules.multiplicative_inverse", "rules.restate_subtraction", "rules.variable_multiply",
]

NODE_ROOT = "BinaryTreeNode"
CONCRETE_KINDS = [
    "NegateExpression", "FactorialExpression", "AbsExpression", "SgnExpression",
    "EqualExpression", "AddExpression", "SubtractExpression", "MultiplyExpression",
    "DivideExpression", "PowerExpression", "ConstantExpression", "VariableExpression",
]
ABSTRACT_KINDS = ["MathExpression", "UnaryExpression", "FunctionExpression", "BinaryExpression"]


class FuncInfo:
    def __init__(self, module: "ModuleInfo", node: ast.FunctionDef, cls: Optional["ClassInfo"] = None):
        self.module = module
        self.node = node
        self.cls = cls
        self.name = node.name
        self.is_property = any(
            isinstance(d, ast.Name) and d.id == "property" for d in node.decorator_list
        )
        names = [d.id if isinstance(d, ast.Name) else (d.attr if isinstance(d, ast.Attribute) else "?")
                 for d in getattr(node, "decorator_list", [])]
        self.kind = "static" if "staticmethod" in names else ("class" if "classmethod" in names else None)
        self.is_generator = any(isinstance(n, (ast.Yield, ast.YieldFrom, ast.Await)) for n in ast.walk(node)) \
            or isinstance(node, ast.AsyncFunctionDef)
        # decorators whose effect the abstract semantics does not model (caches, wrappers, setters ...)
        self.unknown_decorators = [n for n in names if n not in ("property", "staticmethod", "classmethod", "abstractmethod",
                                                                 "overload", "final", "override")]

    @property
    def qualname(self) -> str:
        return f"{self.cls.name}.{self.name}" if self.cls else self.name

    @property
    def where(self) -> str:
        return f"{self.module.relpath}:{self.qualname}"

    def __repr__(self) -> str:
        return f"<func {self.where}>"


class ClassInfo:
    def __init__(self, module: "ModuleInfo", node: ast.ClassDef):
        self.module = module
        self.node = node
        self.name = node.name
        self.base_names: List[str] = []
        for b in node.bases:
            if isinstance(b, ast.Subscript):
                b = b.value
            if isinstance(b, ast.Name):
                self.base_names.append(b.id)
            elif isinstance(b, ast.Attribute):
                self.base_names.append(b.attr)
        self.methods: Dict[str, FuncInfo] = {}
        self.class_attrs: Dict[str, ast.expr] = {}
        self.annotations: Dict[str, ast.expr] = {}
        for st in node.body:
            if isinstance(st, ast.FunctionDef):
                self.methods[st.name] = FuncInfo(module, st, self)
            elif isinstance(st, ast.Assign):
                for t in st.targets:
                    if isinstance(t, ast.Name):
                        self.class_attrs[t.id] = st.value
            elif isinstance(st, ast.AnnAssign) and isinstance(st.target, ast.Name):
                self.annotations[st.target.id] = st.annotation
                if st.value is not None:
                    self.class_attrs[st.target.id] = st.value
        self.bases: List["ClassInfo"] = []  # resolved later

    def __repr__(self) -> str:
        return f"<class {self.name}>"


class ModuleInfo:
    def __init__(self, name: str, path: Path, relpath: str, tree: ast.Module, source: str):
        self.name = name
        self.path = path
        self.relpath = relpath
        self.tree = tree
        self.source = source
        self.classes: Dict[str, ClassInfo] = {}
        self.functions: Dict[str, FuncInfo] = {}
        self.imports: Dict[str, Tuple[str, str]] = {}  # local name -> (module, name)
        self.module_imports: Dict[str, str] = {}  # local alias -> external module
        self.assigns: Dict[str, ast.expr] = {}
        # names bound at module level inside a compound statement (with / try / if / for): values the model does not
        # compute (e.g. data loaded from a file) - unknown objects, not missing names
        self.nested_assigned: set = set()
        for st in tree.body:
            self._top(st)
            if isinstance(st, (ast.With, ast.Try, ast.If, ast.For, ast.While)):
                for n in ast.walk(st):
                    if isinstance(n, (ast.Assign, ast.AnnAssign, ast.AugAssign)):
                        for t in (n.targets if isinstance(n, ast.Assign) else [n.target]):
                            if isinstance(t, ast.Name):
                                self.nested_assigned.add(t.id)
                    elif isinstance(n, ast.withitem) and isinstance(n.optional_vars, ast.Name):
                        self.nested_assigned.add(n.optional_vars.id)

    def _top(self, st: ast.stmt) -> None:
        if isinstance(st, ast.ClassDef):
            self.classes[st.name] = ClassInfo(self, st)
        elif isinstance(st, ast.FunctionDef):
            self.functions[st.name] = FuncInfo(self, st)
        elif isinstance(st, ast.ImportFrom):
            mod = st.module or ""
            if st.level:
                base = self.name.split(".")
                # module 'rules.x' at level 1 -> 'rules'; level 2 -> ''
                pkg_parts = base[:-1]
                up = st.level - 1
                pkg_parts = pkg_parts[: len(pkg_parts) - up] if up else pkg_parts
                full = ".".join(pkg_parts + ([mod] if mod else []))
                for a in st.names:
                    self.imports[a.asname or a.name] = (full, a.name)
            else:
                for a in st.names:
                    self.imports[a.asname or a.name] = ("ext:" + mod, a.name)
        elif isinstance(st, ast.Import):
            for a in st.names:
                self.module_imports[a.asname or a.name.split(".")[0]] = a.name
        elif isinstance(st, ast.Assign):
            for t in st.targets:
                if isinstance(t, ast.Name):
                    self.assigns[t.id] = st.value
        elif isinstance(st, ast.AnnAssign) and isinstance(st.target, ast.Name) and st.value is not None:
            self.assigns[st.target.id] = st.value
        elif isinstance(st, (ast.If, ast.Try)):
            for sub in ast.iter_child_nodes(st):
                if isinstance(sub, ast.stmt):
                    self._top(sub)


class Program:
    def __init__(self, repo: Optional[Path] = None):
        self.repo = Path(repo or REPO)
        self.modules: Dict[str, ModuleInfo] = {}
        pkg = self.repo / PKG
        if not pkg.is_dir():
            raise AnalysisError(f"package directory {pkg} not found")
        for m in MODULES:
            rel = m.replace(".", "/") + ".py"
            p = pkg / rel
            if not p.exists():
                raise AnalysisError(f"module {PKG}/{rel} vanished")
            src = p.read_text()
            try:
                tree = ast.parse(src, filename=str(p))
            except SyntaxError as e:
                raise AnalysisError(f"syntax error in {p}: {e}")
            name = m[: -len(".__init__")] if m.endswith(".__init__") else m
            self.modules[name] = ModuleInfo(name, p, f"{PKG}/{rel}", tree, src)
        # extra modules present in the package but not listed (new files) are parsed too
        for p in sorted(pkg.rglob("*.py")):
            rel = p.relative_to(pkg).as_posix()
            name = rel[:-3].replace("/", ".")
            if name.endswith(".__init__"):
                name = name[: -len(".__init__")]
            if name in self.modules or name in ("__init__", "about"):
                continue
            src = p.read_text()
            try:
                tree = ast.parse(src, filename=str(p))
            except SyntaxError as e:
                raise AnalysisError(f"syntax error in {p}: {e}")
            self.modules[name] = ModuleInfo(name, p, f"{PKG}/{rel}", tree, src)
        meta = pkg / "expressions.meta.json"
        self.meta = json.loads(meta.read_text()) if meta.exists() else {}
        self.classes: Dict[str, ClassInfo] = {}
        for mod in self.modules.values():
            for c in mod.classes.values():
                if c.name in self.classes:
                    # duplicate class names across modules: keep first, record
                    continue
                self.classes[c.name] = c
        for c in self.classes.values():
            for bn in c.base_names:
                b = self.resolve_class(c.module, bn)
                if b is not None:
                    c.bases.append(b)
        self._mro_cache: Dict[str, List[ClassInfo]] = {}
        self._fm_cache: Dict[tuple, Any] = {}
        self._sub_cache: Dict[tuple, bool] = {}
        self._ca_cache: Dict[tuple, Any] = {}

    # ------------------------------------------------------------------ lookup
    def module(self, name: str) -> ModuleInfo:
        if name not in self.modules:
            raise AnalysisError(f"module {name} vanished")
        return self.modules[name]

    def cls(self, name: str) -> ClassInfo:
        if name not in self.classes:
            raise AnalysisError(f"anchor class {name} vanished")
        return self.classes[name]

    def func(self, module: str, qual: str) -> FuncInfo:
        mod = self.module(module)
        if "." in qual:
            cn, fn = qual.split(".", 1)
            if cn not in mod.classes or fn not in mod.classes[cn].methods:
                raise AnalysisError(f"anchor {module}:{qual} vanished")
            return mod.classes[cn].methods[fn]
        if qual not in mod.functions:
            raise AnalysisError(f"anchor {module}:{qual} vanished")
        return mod.functions[qual]

    def resolve_class(self, mod: ModuleInfo, name: str) -> Optional[ClassInfo]:
        if name in mod.classes:
            return mod.classes[name]
        if name in mod.imports:
            m, n = mod.imports[name]
            if m in self.modules:
                return self.resolve_class(self.modules[m], n)
        return None

    def resolve_name(self, mod: ModuleInfo, name: str, _depth: int = 0):
        """Resolve a module-level name to ('class', ClassInfo) | ('func', FuncInfo) |
        ('const', ast.expr, ModuleInfo) | ('extmod', modname) | ('ext', module, name) | None."""
        if _depth > 6:
            return None
        if name in mod.classes:
            return ("class", mod.classes[name])
        if name in mod.functions:
            return ("func", mod.functions[name])
        if name in mod.assigns:
            return ("const", mod.assigns[name], mod)
        if name in mod.imports:
            m, n = mod.imports[name]
            if m in self.modules:
                return self.resolve_name(self.modules[m], n, _depth + 1)
            return ("ext", m[4:] if m.startswith("ext:") else m, n)
        if name in mod.module_imports:
            return ("extmod", mod.module_imports[name])
        return None

    def mro(self, c: ClassInfo) -> List[ClassInfo]:
        if c.name in self._mro_cache:
            return self._mro_cache[c.name]
        # single inheritance everywhere in this package; linearise depth-first, keep first occurrence
        out: List[ClassInfo] = [c]
        for b in c.bases:
            for x in self.mro(b):
                if x not in out:
                    out.append(x)
        if sum(1 for _ in c.bases) > 1:
            raise AnalysisError(f"multiple inheritance in {c.name}: MRO model does not apply")
        self._mro_cache[c.name] = out
        return out

    def is_subclass(self, name: str, base: str) -> bool:
        k = (name, base)
        r = self._sub_cache.get(k)
        if r is None:
            r = name in self.classes and any(x.name == base for x in self.mro(self.classes[name]))
            self._sub_cache[k] = r
        return r

    def find_method(self, cls_name: str, meth: str, after: Optional[str] = None) -> Optional[FuncInfo]:
        """MRO lookup; with `after`, start after that class (super())."""
        k = (cls_name, meth, after)
        if k in self._fm_cache:
            return self._fm_cache[k]
        r = self._find_method(cls_name, meth, after)
        self._fm_cache[k] = r
        return r

    def _find_method(self, cls_name: str, meth: str, after: Optional[str] = None) -> Optional[FuncInfo]:
        mro = self.mro(self.cls(cls_name))
        start = 0
        if after is not None:
            for i, c in enumerate(mro):
                if c.name == after:
                    start = i + 1
                    break
        for c in mro[start:]:
            if meth in c.methods:
                return c.methods[meth]
        return None

    def find_class_attr(self, cls_name: str, attr: str):
        k = (cls_name, attr)
        if k in self._ca_cache:
            return self._ca_cache[k]
        r = None
        for c in self.mro(self.cls(cls_name)):
            if attr in c.class_attrs:
                r = (c, c.class_attrs[attr])
                break
        self._ca_cache[k] = r
        return r

    def node_classes(self) -> List[ClassInfo]:
        return [c for c in self.classes.values() if self.is_subclass(c.name, NODE_ROOT)]

    def concrete_kinds(self) -> List[str]:
        """Concrete expression classes = leaves of the MathExpression hierarchy that define type_id."""
        out = []
        for c in self.node_classes():
            if c.name in (NODE_ROOT,) or c.name in ABSTRACT_KINDS:
                continue
            if not self.is_subclass(c.name, "MathExpression"):
                continue
            out.append(c.name)
        return out

    def rule_classes(self) -> List[ClassInfo]:
        return [c for c in self.classes.values() if c.name != "BaseRule" and self.is_subclass(c.name, "BaseRule")]

    def all_functions(self) -> Iterable[FuncInfo]:
        for mod in self.modules.values():
            for f in mod.functions.values():
                yield f
            for c in mod.classes.values():
                for f in c.methods.values():
                    yield f

    # ------------------------------------------------------------------ language-level guard
    def language_guard(self) -> List[str]:
        """Facts the abstract semantics relies on (DESIGN E0). Returns list of problems."""
        problems = []
        # __eq__ / __ne__ on these classes are interpreted (comparisons dispatch to them); __hash__ only matters through
        # equality-based container look-ups, which the interpreter performs with the modelled equality
        banned = {"__bool__", "__len__", "__getattr__", "__setattr__", "__getattribute__"}
        roots = [NODE_ROOT, "BaseRule", "Token", "ExpressionParser", "Tokenizer", "TokenContext",
                 "ExpressionChangeRule", "FactorResult", "TermResult", "TreeLayout"]
        for c in self.classes.values():
            if any(self.is_subclass(c.name, r) for r in roots):
                for m in c.methods:
                    if m in banned:
                        problems.append(f"{c.module.relpath}:{c.name} defines {m}")
        modelled = {"__init__", "__str__", "__repr__", "__post_init__", "__eq__", "__ne__", "__hash__"}
        # implicit invocations the interpreter models for plain (non-node) objects
        modelled_plain = modelled | {"__eq__", "__ne__", "__hash__", "__bool__", "__len__", "__contains__", "__getitem__",
                                     "__setitem__", "__call__", "__lt__", "__le__", "__gt__", "__ge__", "__enter__", "__exit__"}
        for c in self.classes.values():
            rooted = any(self.is_subclass(c.name, r) for r in roots)
            for m in c.methods:
                if not (m.startswith("__") and m.endswith("__")) or m in banned and rooted:
                    continue
                if m not in (modelled if rooted else modelled_plain):
                    problems.append(f"{c.module.relpath}:{c.name} defines {m} (implicit invocation is not modelled)")
        # reflective calls (setattr / vars / exec / eval / globals / delattr) and __dict__ accesses are refused where the
        # interpreter meets them (an analysis that never reaches them is not affected)
        return problems


# ---------------------------------------------------------------------- helpers
def unparse(n: ast.AST) -> str:
    try:
        return ast.unparse(n)
    except Exception:  # pragma: no cover
        return f"<{type(n).__name__}>"


def const_fold(prog: Program, mod: ModuleInfo, e: ast.expr, _depth: int = 0) -> Any:
    """Safe constant folding of module-level expressions. Raises ValueError if not constant."""
    if _depth > 12:
        raise ValueError("too deep")
    if isinstance(e, ast.Constant):
        return e.value
    if isinstance(e, ast.Name):
        r = prog.resolve_name(mod, e.id)
        if r and r[0] == "const":
            return const_fold(prog, r[2], r[1], _depth + 1)
        raise ValueError(f"name {e.id}")
    if isinstance(e, ast.Attribute) and isinstance(e.value, ast.Name):
        r = prog.resolve_name(mod, e.value.id)
        if r and r[0] == "class":
            ca = prog.find_class_attr(r[1].name, e.attr)
            if ca:
                return const_fold(prog, ca[0].module, ca[1], _depth + 1)
        raise ValueError(f"attr {unparse(e)}")
    if isinstance(e, ast.BinOp):
        a = const_fold(prog, mod, e.left, _depth + 1)
        b = const_fold(prog, mod, e.right, _depth + 1)
        ops = {ast.LShift: lambda x, y: x << y, ast.BitOr: lambda x, y: x | y,
               ast.BitAnd: lambda x, y: x & y, ast.Add: lambda x, y: x + y,
               ast.Sub: lambda x, y: x - y, ast.Mult: lambda x, y: x * y}
        for k, fn in ops.items():
            if isinstance(e.op, k):
                return fn(a, b)
        raise ValueError("binop")
    if isinstance(e, ast.UnaryOp) and isinstance(e.op, ast.USub):
        return -const_fold(prog, mod, e.operand, _depth + 1)
    if isinstance(e, (ast.List, ast.Tuple)):
        return [const_fold(prog, mod, x, _depth + 1) for x in e.elts]
    if isinstance(e, ast.Call) and isinstance(e.func, ast.Name) and e.func.id == "list" and len(e.args) == 1:
        v = const_fold(prog, mod, e.args[0], _depth + 1)
        return list(v)
    raise ValueError(f"not constant: {unparse(e)}")


def stmt_key(n: ast.AST) -> str:
    """Normalised text key of a construct (no positions)."""
    return " ".join(unparse(n).split())
