"""Value terms, structural audits and shape descriptions over the abstract heap of one path."""
from __future__ import annotations

import itertools
from typing import Any, Dict, Iterable, List, Optional, Set, Tuple

from . import algebra as A
from .absint import (ALL_KINDS, BIN, LEAF, UN, Cell, Ident, Interp, Node, Num, _MISSING)
from .report import AnalysisError

SHORT = lambda k: k.replace("Expression", "")


class HeapView:
    """Read-only view of an Interp's final heap: 'entry' (tree as it was when the analysed call
    started, with every refinement made later) or 'cur' (tree after the call)."""

    def __init__(self, it: Interp, optable: Dict[str, Dict[str, Any]], kind_choice: Optional[Dict[int, str]] = None):
        self.it = it
        self.optable = optable
        self.kind_choice = kind_choice or {}

    # ------------------------------------------------------------------ raw field access (no forking)
    def get(self, cid: int, f: str, view: str):
        """Returns (value, cid_space_view). Falls through clone mirrors to the original's entry view."""
        cell = self.it.cells[cid]
        d = cell.entry if view == "entry" else cell.cur
        if f in d:
            return d[f], view
        if view == "cur" and ("__deleted__" + f) in cell.cur:
            return _MISSING, view
        if cell.mirror is not None:
            if f == "parent":
                return _MISSING, view
            return self.get(cell.mirror[1], f, "entry")
        return _MISSING, view

    def kind(self, cid: int) -> Optional[str]:
        cell = self.it.cells[cid]
        ks = self.it.kinds_of(cell)
        if cid in self.kind_choice:
            return self.kind_choice[cid]
        root = self._orig(cid)
        if root in self.kind_choice:
            return self.kind_choice[root]
        if len(ks) == 1:
            return next(iter(ks))
        return None

    def kinds(self, cid: int) -> frozenset:
        k = self.kind(cid)
        if k is not None:
            return frozenset([k])
        return self.it.kinds_of(self.it.cells[cid])

    def _orig(self, cid: int) -> int:
        c = self.it.cells[cid]
        while c.mirror is not None:
            c = self.it.cells[c.mirror[1]]
        return c.cid

    def is_structural(self, cid: int, view: str) -> bool:
        l, _ = self.get(cid, "left", view)
        r, _ = self.get(cid, "right", view)
        return l is not _MISSING or r is not _MISSING

    # ------------------------------------------------------------------ value term
    def term(self, cid: int, view: str, _depth: int = 0) -> tuple:
        if _depth > 60:
            raise AnalysisError("cyclic heap while building a value term")
        cell = self.it.cells[cid]
        ks = self.kinds(cid)
        if not self.is_structural(cid, view):
            # leaf payloads are known even if link fields were never touched
            if ks <= {"ConstantExpression"}:
                return self._const_term(cid, view)
            if ks <= {"VariableExpression"}:
                return self._var_term(cid, view)
            return ("atom", f"T{self._orig(cid)}")
        if len(ks) != 1:
            raise NeedKind(cid)
        k = next(iter(ks))
        if k == "ConstantExpression":
            return self._const_term(cid, view)
        if k == "VariableExpression":
            return self._var_term(cid, view)
        l, lv = self.get(cid, "left", view)
        r, rv = self.get(cid, "right", view)

        def sub(v, vw, side):
            if isinstance(v, Node):
                return self.term(v.cid, vw, _depth + 1)
            if v is _MISSING:
                return ("atom", f"T{self._orig(cid)}.{side}")
            return ("atom", f"MISSING-OPERAND({cid}.{side})")
        if k in BIN:
            lt, rt = sub(l, lv, "left"), sub(r, rv, "right")
            if k == "EqualExpression":
                return ("eq", lt, rt)
            sem = self.optable.get(k, {})
            op = sem.get("op", "unknown")
            if sem.get("args") == "swapped":
                lt, rt = rt, lt
            if op in ("add", "sub", "mul", "div", "pow"):
                return (op, lt, rt)
            return ("fn", f"{SHORT(k)}:{op}", ("add", lt, ("mul", A.lit(7), rt)))
        if k in UN:
            col, _ = self.get(cid, "child_on_left", view)
            ch, chv, side = (l, lv, "left") if col is True else (r, rv, "right")
            ct = sub(ch, chv, side)
            sem = self.optable.get(k, {})
            op = sem.get("op", "unknown")
            if op == "neg":
                return ("neg", ct)
            if op in ("abs", "sgn", "factorial"):
                return ("fn", op, ct)
            return ("fn", f"{SHORT(k)}:{op}", ct)
        raise AnalysisError(f"unknown kind {k}")

    def _const_term(self, cid: int, view: str) -> tuple:
        v, _ = self.get(cid, "value", view)
        if v is _MISSING:
            return ("sym", f"c{self._orig(cid)}")
        if isinstance(v, Num):
            return v.term
        if isinstance(v, (int, float)) and not isinstance(v, bool):
            return A.lit(v)
        if v is None:
            return ("atom", f"NONE-VALUE({cid})")
        return ("atom", f"BAD-VALUE({cid}:{v!r})")

    def _var_term(self, cid: int, view: str) -> tuple:
        v, _ = self.get(cid, "identifier", view)
        if v is _MISSING:
            return ("atom", "var:" + self.it.ident_find(f"v{self._orig(cid)}"))
        if isinstance(v, Ident):
            return ("atom", "var:" + self.it.ident_find(v.name))
        if isinstance(v, str):
            return ("atom", "var:" + v)
        return ("atom", f"BAD-IDENT({cid}:{v!r})")

    # ------------------------------------------------------------------ navigation
    def top(self, cid: int, view: str) -> int:
        seen = set()
        while True:
            if cid in seen:
                raise AnalysisError("parent cycle")
            seen.add(cid)
            p, _ = self.get(cid, "parent", view)
            if isinstance(p, Node):
                cid = p.cid
            else:
                return cid

    def children(self, cid: int, view: str) -> List[Tuple[str, Any]]:
        out = []
        for s in ("left", "right"):
            v, _ = self.get(cid, s, view)
            out.append((s, v))
        return out

    def walk(self, cid: int, view: str) -> Iterable[int]:
        """Pre-order over materialised cells reachable through child links (own space only)."""
        stack = [cid]
        seen: Set[int] = set()
        while stack:
            c = stack.pop()
            if c in seen:
                continue
            seen.add(c)
            yield c
            cell = self.it.cells[c]
            d = cell.entry if view == "entry" else cell.cur
            for s in ("right", "left"):
                v = d.get(s, _MISSING)
                if isinstance(v, Node):
                    stack.append(v.cid)

    def shape(self, cid: int, view: str, depth: int = 0) -> str:
        """Compact description of the materialised shape, e.g. Subtract(□, Add(Const, □))."""
        if depth > 12:
            return "…"
        ks = self.kinds(cid)
        name = "|".join(sorted(SHORT(k) for k in ks)) if len(ks) <= 3 else (
            "Any" if len(ks) >= 11 else "{" + ",".join(sorted(SHORT(k)[:3] for k in ks)) + "}")
        if ks <= LEAF and len(ks) == 1:
            return name
        if not self.is_structural(cid, view):
            return "□" if len(ks) >= 11 else f"□:{name}"
        parts = []
        for s, v in self.children(cid, view):
            if isinstance(v, Node):
                cell = self.it.cells[cid]
                # follow into the right space
                _, vw = self.get(cid, s, view)
                parts.append(self.shape(v.cid, vw, depth + 1))
            elif v is None:
                parts.append("-")
            else:
                parts.append("□")
        if ks <= UN:
            col, _ = self.get(cid, "child_on_left", view)
            parts = [parts[0]] if col is True else [parts[-1]]
        return f"{name}({', '.join(parts)})"


class NeedKind(Exception):
    def __init__(self, cid: int):
        self.cid = cid


def kind_assignments(it: Interp, optable, fn, limit: int = 5000):
    """Call fn(view) for every assignment of single kinds to the multi-kind cells that fn needs
    (discovered lazily through NeedKind).  Yields (kind_choice, result)."""
    pending: List[Dict[int, str]] = [{}]
    n = 0
    while pending:
        choice = pending.pop()
        n += 1
        if n > limit:
            raise AnalysisError("kind-assignment budget exceeded")
        view = HeapView(it, optable, choice)
        try:
            res = fn(view)
        except NeedKind as nk:
            root = view._orig(nk.cid)
            ks = sorted(it.kinds_of(it.cells[root]))
            for k in ks:
                c2 = dict(choice)
                c2[root] = k
                pending.append(c2)
            continue
        yield choice, res
