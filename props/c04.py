"""C04 - printing an expression and parsing it back preserves its meaning.

R1 static round trip: for every (parent kind, left child form, right child form) - 6 binary parents x 14 x 14 forms,
   3 unary parents x 14 forms, leaves distinct variables / distinct primes - the printers' source is interpreted to
   obtain the text, the specification tokenizer (validated against the source by C11) splits it, the parser's source
   is interpreted on the tokens, and the value term of the re-parsed tree must equal that of the original (E4).
R4 number text: the constant printer renders integral values through int() and every other value through a positional
   formatter; str()/repr()/f-string of a float may produce exponent notation that does not re-tokenize.
"""
from __future__ import annotations

from typing import List

from sa import algebra as A
from sa.absint import (AbsRaise, Interp, Node, Num, Opaque, Render, Unsupported, explore)
from sa.model import Program
from sa.printcases import FORMS, analyse_printer
from sa.report import Check, REPO
from .common import program


def run_roundtrip(chk: Check, recs: List[dict], pid: str = "C04") -> None:
    chk.rule(f"{pid}.R1", "print -> tokenize -> parse gives back a tree of the same value, per (parent, child forms)",
             minimum=1000)
    where = "mathy_core/expressions.py:__str__ printers"
    for r in recs:
        label = f"{r['parent']}({', '.join(r['forms'])}) prints {r.get('text')!r}"
        shape = f"{r['parent']}:{'/'.join(r['forms'][:1])}" if r['parent'] != "Power" else f"Power:left={r['forms'][0]}"
        if r["outcome"] == "equal":
            chk.ok(f"{pid}.R1", f"{pid}.R1", label, where=where)
        elif r["outcome"] in ("differs", "differs-domain"):
            side = "left" if r["parent"] == "Power" else "operand"
            key = f"{pid}.R1:{r['parent']}:{side}={r['forms'][0]}" if r["parent"] in ("Power", "Negate", "Sgn", "Factorial") \
                else f"{pid}.R1:{r['parent']}:{'/'.join(r['forms'])}"
            chk.fail(f"{pid}.R1", key, label,
                     f"tree {r.get('tree')} = {r.get('orig_term')} prints as {r.get('text')!r}, which parses back as "
                     f"{r.get('back_term')}", witness={"tree": r.get("tree"), "text": r.get("text"), "reparsed": r.get("back_term")},
                     where=where)
        elif r["outcome"] == "reparse-rejects":
            chk.fail(f"{pid}.R1", f"{pid}.R1:{r['parent']}:operand={r['forms'][0]}:rejected", label,
                     f"tree {r.get('tree')} prints as {r.get('text')!r}, which the parser rejects: {r.get('note')}",
                     witness={"tree": r.get("tree"), "text": r.get("text")}, where=where)
        elif r["outcome"] == "print-raises":
            chk.fail(f"{pid}.R1", f"{pid}.R1:{r['parent']}:print-raises:{r.get('exc')}", label, f"printing raises: {r.get('note')}",
                     witness={"tree": r.get("tree")}, where=where)
        else:
            chk.undecided(f"{pid}.R1", f"{pid}.R1:{r['outcome']}", label, str(r.get("note")), where)


def run_parser_shapes(chk: Check, prog: Program) -> None:
    """The domain of R1 is a list of forms chosen by reading the parser; this clause takes the domain from the parser's
    source: every tree shape the interpreted parser builds from up to five (thorough: six) tokens, literals positive and
    negative."""
    from sa.printcases import analyse_parser_shapes
    n_tok = 5 if chk.tier == "quick" else 6
    chk.rule("C04.R5", f"every tree shape the parser builds from up to {n_tok} tokens prints to text that parses back to the "
             "same value (shapes taken from the interpreted parser)", minimum=400)
    where = "mathy_core/expressions.py:__str__ printers"
    recs = analyse_parser_shapes(str(REPO), n_tok)
    chk.analysed["parser_shapes"] = len(recs)
    for r in recs:
        sh = r["forms"][0][2:]
        sign = "negative literals" if r["forms"][0][1] == "-" else "positive literals"
        label = f"{sh} ({sign}; the parser builds it from e.g. {r.get('parsed_from')!r}) prints {r.get('text')!r}"
        if r["outcome"] == "equal":
            chk.ok("C04.R5", "C04.R5", label, where=where)
        elif r["outcome"] in ("differs", "differs-domain"):
            chk.fail("C04.R5", f"C04.R5:{sh}", label,
                     f"tree {r.get('tree')} = {r.get('orig_term')} prints as {r.get('text')!r}, which parses back as "
                     f"{r.get('back_term')}", witness={"tree": r.get("tree"), "text": r.get("text"), "reparsed": r.get("back_term")},
                     where=where)
        elif r["outcome"] == "reparse-rejects":
            chk.fail("C04.R5", f"C04.R5:{sh}:rejected", label,
                     f"tree {r.get('tree')} prints as {r.get('text')!r}, which the parser rejects: {r.get('note')}",
                     witness={"tree": r.get("tree"), "text": r.get("text")}, where=where)
        elif r["outcome"] == "print-raises":
            chk.fail("C04.R5", f"C04.R5:{sh}:print-raises:{r.get('exc')}", label, f"printing raises: {r.get('note')}",
                     witness={"tree": r.get("tree")}, where=where)
        else:
            chk.undecided("C04.R5", f"C04.R5:{r['outcome']}:{sh}", label, str(r.get("note")), where)


def run_number_text(chk: Check, prog: Program) -> None:
    chk.rule("C04.R4", "constant printer: int() for integral values, positional formatter otherwise", minimum=2)
    m = prog.find_method("ConstantExpression", "name")

    def body(it: Interp):
        node = it.new_summary(frozenset(["ConstantExpression"]), "arg")
        it.arg = node
        return it.call_function(m, [node], {})

    for p in explore(prog, body, {"max_updepth": 0}):
        it = p.interp
        label = f"ConstantExpression.name with {p.cond or 'no condition'}"
        key = "C04.R4:ConstantExpression.name"
        if p.outcome != "return":
            chk.fail("C04.R4", key + ":raise", label, f"{p.outcome} {p.exc or p.note}", where=m.where)
            continue
        v = p.value
        exts = [e[1] for e in it.events if e[0] == "ext"]
        parts = v.parts if isinstance(v, Render) else ((v,) if isinstance(v, str) else None)
        ok = parts is not None
        why = ""
        if parts is None:
            ok = False
            why = f"the text is produced by {v!r}"
        else:
            for part in parts:
                if isinstance(part, str):
                    if part.strip("0123456789.-") != "":
                        ok, why = False, f"literal text {part!r}"
                elif part[0] == "num":
                    t = part[1]
                    integral = t[0] == "fn" and t[1] == "int"
                    positional = "numpy.format_float_positional" in exts
                    if not (integral or positional):
                        ok, why = False, "a non-integral number is rendered by str()/repr()/f-string, which switches to " \
                                         "exponent notation below 1e-4 and above 1e16 (e.g. 1e-05): 'e' re-tokenizes as a variable"
                else:
                    ok, why = False, f"part {part!r}"
        chk.verdict(ok, "C04.R4", key, label, why, witness={"example": "0.00001 prints as 1e-05 and re-parses as 1 * e - 5"},
                    where=m.where)


def run(chk: Check) -> None:
    prog = program(chk)
    chk.technique = "static round trip: interpreted printers -> specification tokenizer -> interpreted parser, value terms " \
                    "compared by normal form, exhaustive over parent/child-form shapes; formatter rule for number text"
    chk.explanation = (
        f"Decides: for each of the {6 * len(FORMS) ** 2 + 2 * len(FORMS) + 2} shapes (parent kind x child forms "
        f"{', '.join(FORMS)}; children of children are distinct variables / primes) the text produced by the printers "
        "(source interpreted) is accepted by the parser (source interpreted on the tokens of the specification "
        "tokenizer) and the re-parsed tree has the same value term (same sides for equations) and the same variables; "
        "parentheses are therefore present wherever the parser would otherwise regroup. Constant text: integral values "
        "through int(), others through the positional formatter. Not decided: digits produced by "
        "numpy.format_float_positional; non-finite constants; Abs nodes (no parser or rule creates them: outside the "
        "quantifier); shapes deeper than parent/child/grandchild are covered only through compositionality of the "
        "printers (each printer looks at its parent and children only - this locality is what the shape domain relies on).")
    chk.assumptions = ["printers inspect only parent and children kinds (depth-2 shape domain)", "tokenizer == specification (C11)",
                       "AbsExpression is unreachable from parser and rules"]
    recs = analyse_printer(str(REPO), tier=chk.tier)
    chk.analysed["shapes"] = len(recs)
    run_roundtrip(chk, recs)
    run_parser_shapes(chk, prog)
    run_number_text(chk, prog)
    # contracts of other parts of the library this check takes for granted (summaries, token model, reference grammar):
    # the clauses that check the source against them, replayed under this property (props/contracts.py)
    from .contracts import run_contracts
    run_contracts(chk, prog, ['tokenizer'])
    chk.exhaustive = True
    chk.max_undecided = 0
