"""C16 - term analysis is inverse to term construction; factor table.

R1 make_term value: for every component class (coefficient symbolic / one; variable present / absent; exponent present
   / absent) the tree built has the value coefficient * variable^exponent (absent read as 1).
R2 get_term_ex soundness: on every return path the returned triple (c, v, e) satisfies value(node) == c * v^e and each
   component is the payload found in the tree.
R3 inverse: get_term_ex(make_term(c, v, e)) gives back (c, v, e) (coefficient None <-> 1).
R4 factor table: the divisor loop of `factor`, interpreted once on a symbolic trial divisor, records both arrangements
   (i, v/i), (v/i, i) on every path on which i divides v; the trial range is 2..floor(sqrt(v)); seeds (1, v), (v, 1).
Not decided: order/grouping invariance of has_like_terms, reflexivity/symmetry of terms_are_like, 'never raise'.
"""
from __future__ import annotations

import ast
from typing import Any, Dict, List, Optional

from sa import algebra as A
from sa.absint import (ALL_KINDS, AbsRaise, Dct, Ident, Interp, Lst, Node, Num, Opaque, Tup, Unsupported, _MISSING,
                       _Continue, _Break, _Return, Env, explore)
from sa.heapterm import HeapView, kind_assignments
from sa.model import Program, unparse
from sa.report import AnalysisError, Check
from sa.summaries import Summaries
from .common import program


def triple_term(it: Interp, c, v, e) -> tuple:
    ct = A.lit(1) if c is None else it.to_term(c)
    t = ct
    if v is not None:
        vt = ("atom", "var:" + (it.ident_find(v.name) if isinstance(v, Ident) else str(v)))
        if e is not None:
            vt = ("pow", vt, it.to_term(e))
        t = ("mul", ct, vt)
    elif e is not None:
        t = ("mul", ct, ("pow", A.lit(1), it.to_term(e)))
    return t


def _subst_ok(it: Interp):
    from sa.rulecases import _fact_env, _sampler_for
    subst, ok, cons = _fact_env(it)
    return subst, ok, cons, _sampler_for(cons)


def values_equal(it: Interp, a, b):
    subst, ok, cons, sampler = _subst_ok(it)
    try:
        if A.equal_nf(a, b, subst):
            return True, None
    except Exception:
        pass
    extra = set()
    for t, _ in cons:
        extra |= A.symbols(A.apply_subst(t, subst))
    st, w = A.differ_witness(a, b, constraints=ok, subst=subst, sampler=sampler, extra_syms=extra)
    if st == "differ":
        return False, w
    return None, None


def run_make_term(chk: Check, prog: Program, S: Summaries) -> None:
    chk.rule("C16.R1", "value(make_term(c, v, e)) == c * v^e for every component class", minimum=5)
    chk.rule("C16.R3", "get_term_ex(make_term(c, v, e)) == (c, v, e)", minimum=5)
    mk = prog.func("util", "make_term")
    gx = prog.func("util", "get_term_ex")
    for has_v in (True, False):
        for has_e in (True, False):
            if has_e and not has_v:
                continue  # an exponent without a variable is not a term the statement speaks about

            def body(it: Interp, has_v=has_v, has_e=has_e):
                c = Num(("sym", "c"))
                v = "x" if has_v else None
                e = Num(("sym", "e")) if has_e else None
                it.triple = (c, v, e)
                node = it.call_function(mk, [c, v, e], {})
                it.built = node
                it.events.append(("phase", "extract"))
                back = it.call_function(gx, [node], {})
                return back

            for p in explore(prog, body, {"max_updepth": 0, "hooks": S.hooks()}):
                it = p.interp
                c, v, e = it.triple
                label = f"make_term(c{'' if True else ''}, {'x' if has_v else None}, {'e' if has_e else None}) with {p.cond or 'no condition'}"
                if p.outcome != "return" or not isinstance(getattr(it, "built", None), Node):
                    chk.fail("C16.R1", "C16.R1:make_term:raise", label, f"{p.outcome} {p.exc or p.note}", where=mk.where)
                    continue
                hv = HeapView(it, S.optable)
                built = hv.term(it.built.cid, "cur")
                want = ("mul", it.to_term(c), ("pow", ("atom", "var:x"), it.to_term(e)) if has_e else ("atom", "var:x")) \
                    if has_v else it.to_term(c)
                eq, w = values_equal(it, built, want)
                ret_idx = [i for f, i in it.ret_log if f == "make_term"]
                key = f"C16.R1:make_term:return#{ret_idx[0] if ret_idx else '?'}"
                if eq is True:
                    chk.ok("C16.R1", key, f"{label}: builds {hv.shape(it.built.cid, 'cur')}", where=mk.where)
                elif eq is False:
                    chk.fail("C16.R1", key, label, f"builds {hv.shape(it.built.cid, 'cur')} whose value {A.term_str(built)} "
                             f"is not c * x^e = {A.term_str(want)}", witness={"assignment": w, "built": A.term_str(built)},
                             where=mk.where)
                else:
                    chk.undecided("C16.R1", key, label, "normal forms differ, no witness", mk.where)
                # inverse
                back = p.value
                key3 = f"C16.R3:make_term:return#{ret_idx[0] if ret_idx else '?'}"
                probs = []
                if not isinstance(back, Tup) or len(back.items) != 3:
                    probs.append(f"get_term_ex returns {back!r} for the built term")
                else:
                    bc, bv, be = back.items
                    ct = A.lit(1) if bc is None else it.to_term(bc)
                    eqc, _ = values_equal(it, ct, it.to_term(c)) if ct is not None else (False, None)
                    if eqc is not True:
                        probs.append(f"coefficient comes back as {bc!r}")
                    if has_v != (bv is not None) or (has_v and not (bv == "x" or (isinstance(bv, Ident) and False))):
                        probs.append(f"variable comes back as {bv!r}")
                    if has_e:
                        et = it.to_term(be) if be is not None else None
                        if et is None or values_equal(it, et, it.to_term(e))[0] is not True:
                            probs.append(f"exponent comes back as {be!r}")
                    elif be is not None:
                        probs.append(f"exponent comes back as {be!r} although none was given")
                chk.verdict(not probs, "C16.R3", key3, label, "; ".join(probs),
                            witness={"built": hv.shape(it.built.cid, "cur"), "problems": probs}, where=gx.where)


def run_get_term_ex(chk: Check, prog: Program, S: Summaries) -> None:
    chk.rule("C16.R2", "value(node) == c * v^e for the triple returned by get_term_ex, every return path", minimum=7)
    gx = prog.func("util", "get_term_ex")

    def body(it: Interp):
        node = it.new_summary(ALL_KINDS, "arg")
        it.arg = node
        return it.call_function(gx, [node], {})

    for p in explore(prog, body, {"max_updepth": 1, "hooks": S.hooks()}):
        it = p.interp
        if p.outcome != "return":
            chk.fail("C16.R2", "C16.R2:get_term_ex:raise", p.cond[-200:], f"get_term_ex raises {p.exc or p.note}", where=gx.where)
            continue
        if p.value is None:
            continue
        ret_idx = [i for f, i in it.ret_log if f == "get_term_ex"]
        key = f"C16.R2:get_term_ex:return#{ret_idx[0] if ret_idx else '?'}"
        if not isinstance(p.value, Tup) or len(p.value.items) != 3:
            chk.fail("C16.R2", key, p.cond[-200:], f"returns {p.value!r}", where=gx.where)
            continue
        c, v, e = p.value.items
        for choice, res in kind_assignments(it, S.optable, lambda hv: (hv.term(it.arg.cid, "entry"), hv.shape(it.arg.cid, "entry"))):
            nt, shape = res
            want = triple_term(it, c, v, e)
            eq, w = values_equal(it, nt, want)
            label = f"get_term_ex({shape}) -> ({c!r}, {v!r}, {e!r})"
            if eq is True:
                chk.ok("C16.R2", key, label, where=gx.where)
            elif eq is False:
                chk.fail("C16.R2", key, label, f"value of the node is {A.term_str(nt)}, the triple denotes {A.term_str(want)}",
                         witness={"assignment": w}, where=gx.where)
            else:
                chk.undecided("C16.R2", key, label, "normal forms differ, no witness", gx.where)


def run_factor(chk: Check, prog: Program, S: Summaries) -> None:
    chk.rule("C16.R4", "factor(): seeds, trial range and divisor loop record every divisor pair in both arrangements", minimum=4)
    f = prog.func("util", "factor")
    loops = [n for n in ast.walk(f.node) if isinstance(n, ast.For)]
    where = f.where
    if len(loops) != 1:
        chk.undecided("C16.R4", "C16.R4:factor:shape", "factor()", f"{len(loops)} loops: shape not recognised", where)
        return
    loop = loops[0]
    # ---- trial range: the statements before the loop are interpreted on a symbolic positive value, the bounds of the
    # range() call are read off as terms, and the terms are evaluated for every value of a bounded domain: every trial
    # divisor 2 <= i <= sqrt(value) must lie in the range (a wider range is fine)
    range_problem = None
    lo_hi = None
    if isinstance(loop.iter, ast.Call) and unparse(loop.iter.func) == "range" and 1 <= len(loop.iter.args) <= 2 \
            and not loop.iter.keywords:
        stmts_before = []
        for st in f.node.body:
            if st is loop:
                break
            stmts_before.append(st)
        if loop not in f.node.body:
            range_problem = "the divisor loop is not a top-level statement of factor()"
        else:
            def body_r(it: Interp):
                env = Env(it, f, f.module)
                env.vars["value"] = Num(("sym", "value"))
                it.assume_sign(("sym", "value"), frozenset(["pos"]))
                it.hooks["ext:numpy.sqrt"] = lambda it2, path, args, kwargs: Num(("fn", "sqrt", it2.to_term(args[0])))
                it.hooks["ext:math.sqrt"] = it.hooks["ext:numpy.sqrt"]
                it.hooks["ext:math.isqrt"] = lambda it2, path, args, kwargs: Num(("fn", "int", ("fn", "sqrt", it2.to_term(args[0]))))
                it.hooks["ext:numpy.seterr"] = lambda it2, path, args, kwargs: None
                it.hooks["ext:math.isnan"] = lambda it2, path, args, kwargs: False
                it.hooks["ext:numpy.isnan"] = it.hooks["ext:math.isnan"]
                it.exec_block(stmts_before, env)
                args = [it.eval(a_, env) for a_ in loop.iter.args]
                return args
            try:
                paths = [p_ for p_ in explore(prog, body_r, {"max_updepth": 0, "hooks": S.hooks()}, max_paths=64)
                         if p_.outcome == "return"]
            except Exception as e:  # noqa: BLE001 - anything the interpreter cannot follow leaves the clause undecided
                paths = []
                range_problem = f"statements before the loop could not be interpreted: {e}"
            if paths and range_problem is None:
                bad_value = None
                for p_ in paths:
                    terms = [p_.interp.to_term(x) for x in p_.value]
                    if any(t is None for t in terms):
                        range_problem = f"range bounds are not numbers: {p_.value!r}"
                        break
                    lo_t, hi_t = (A.lit(0), terms[0]) if len(terms) == 1 else terms
                    lo_hi = (A.term_str(lo_t), A.term_str(hi_t))
                    for v_ in list(range(1, 1025)) + [2047, 2048, 2049, 4095, 4096, 4097, 9999, 10000, 10001, 65535, 65536, 65537,
                                                      999999, 1000000, 1000001]:
                        env_ = {("sym", "value"): float(v_)}
                        try:
                            lo_v, hi_v = A.evaluate(lo_t, env_), A.evaluate(hi_t, env_)
                        except A.Undefined:
                            bad_value = (v_, "bounds undefined")
                            break
                        need_hi = int(v_ ** 0.5)
                        while (need_hi + 1) ** 2 <= v_:
                            need_hi += 1
                        while need_hi ** 2 > v_:
                            need_hi -= 1
                        if need_hi >= 2 and not (lo_v <= 2 and hi_v > need_hi):
                            bad_value = (v_, f"range({lo_v:g}, {hi_v:g}) misses a trial divisor in 2..{need_hi}")
                            break
                    if bad_value:
                        break
                if bad_value and range_problem is None:
                    chk.fail("C16.R4", "C16.R4:factor:range", f"trial divisors: for i in {unparse(loop.iter)}",
                             f"for value = {bad_value[0]}: {bad_value[1]}", witness={"value": bad_value[0]}, where=where)
                    range_problem = "reported"
            elif range_problem is None:
                range_problem = "no path reaches the loop for a positive value"
    else:
        range_problem = "the loop does not iterate over range(...)"
    if range_problem is None:
        chk.ok("C16.R4", "C16.R4:factor:range", f"trial divisors: for i in {unparse(loop.iter)} = range({lo_hi[0]}, {lo_hi[1]})",
               "covers 2..floor(sqrt(value)) for every value in 1..1024 and 15 values around larger squares", where=where)
    elif range_problem != "reported":
        chk.undecided("C16.R4", "C16.R4:factor:range", f"trial divisors: for i in {unparse(loop.iter)}", range_problem, where)
    # ---- seeds: the table at loop entry (statements before the loop interpreted on a symbolic positive value) holds
    # 1 -> value and value -> 1
    seed_problem = None
    if loop in f.node.body:
        def body_s(it: Interp):
            env = Env(it, f, f.module)
            env.vars["value"] = Num(("sym", "value"))
            it.assume_sign(("sym", "value"), frozenset(["pos"]))
            it.assume_sign(("sub", ("sym", "value"), A.lit(1)), frozenset(["pos"]))   # value = 1 has the single entry 1 -> 1
            it.hooks["ext:numpy.sqrt"] = lambda it2, path, args, kwargs: Num(("fn", "sqrt", it2.to_term(args[0])))
            it.hooks["ext:math.sqrt"] = it.hooks["ext:numpy.sqrt"]
            it.hooks["ext:math.isqrt"] = lambda it2, path, args, kwargs: Num(("fn", "int", ("fn", "sqrt", it2.to_term(args[0]))))
            it.hooks["ext:numpy.seterr"] = lambda it2, path, args, kwargs: None
            it.hooks["ext:math.isnan"] = lambda it2, path, args, kwargs: False
            it.hooks["ext:numpy.isnan"] = it.hooks["ext:math.isnan"]
            it.exec_block([st for st in f.node.body[:f.node.body.index(loop)]], env)
            tables = [v_ for v_ in env.vars.values() if isinstance(v_, Dct)]
            return tables
        try:
            for p_ in explore(prog, body_s, {"max_updepth": 0, "hooks": S.hooks()}, max_paths=64):
                if p_.outcome != "return":
                    seed_problem = f"{p_.outcome} before the loop: {p_.exc or p_.note}"
                    break
                tables = p_.value
                v = ("sym", "value")
                ok_seed = False
                for t_ in tables:
                    ents = [(p_.interp.to_term(k_), p_.interp.to_term(x_)) for k_, x_ in t_.items.items()]

                    def has_(a_, b_):
                        return any(x is not None and y is not None and A.equal_nf(x, a_) and A.equal_nf(y, b_) for x, y in ents)
                    if has_(A.lit(1), v) and has_(v, A.lit(1)):
                        ok_seed = True
                if not ok_seed:
                    seed_problem = "the table at loop entry lacks 1 -> value or value -> 1"
        except Exception as e:  # noqa: BLE001
            seed_problem = f"statements before the loop could not be interpreted: {e}"
    else:
        seed_problem = "the divisor loop is not a top-level statement of factor()"
    if seed_problem is None:
        chk.ok("C16.R4", "C16.R4:factor:seeds", "seed entries (1, value) and (value, 1) are in the table at loop entry", where=where)
    elif seed_problem.startswith("the table"):
        chk.fail("C16.R4", "C16.R4:factor:seeds", "seed entries (1, value) and (value, 1)", seed_problem, where=where)
    else:
        chk.undecided("C16.R4", "C16.R4:factor:seeds", "seed entries (1, value) and (value, 1)", seed_problem, where)
    # ---- negative values: whatever the table holds, every entry k -> c is a factor pair of the value itself (k * c ==
    # value); the rules index the table with a common key of two tables and multiply back
    if loop in f.node.body:
        def body_n(it: Interp):
            env = Env(it, f, f.module)
            env.vars["value"] = Num(("sym", "value"))
            it.assume_sign(("sym", "value"), frozenset(["neg"]))

            def h_sqrt(it2, path, args, kwargs):
                return Num(("fn", "sqrt", it2.to_term(args[0])))

            def h_isnan(it2, path, args, kwargs):
                t = it2.to_term(args[0])
                if t is not None and t[0] == "fn" and t[1] == "sqrt":
                    # numpy's sqrt of a negative number is nan
                    return it2.sign_query(t[2], frozenset(["neg"]), f"{A.term_str(t[2])}<0 (sqrt is nan)")
                return False
            it.hooks["ext:numpy.sqrt"] = h_sqrt
            it.hooks["ext:math.sqrt"] = h_sqrt
            it.hooks["ext:numpy.seterr"] = lambda it2, path, args, kwargs: None
            it.hooks["ext:math.isnan"] = h_isnan
            it.hooks["ext:numpy.isnan"] = h_isnan
            try:
                it.exec_block([st for st in f.node.body[:f.node.body.index(loop)]], env)
            except _Return as r:
                return ("returned", r.value)
            # the loop is reached with a negative value: interpret its body once on a symbolic trial divisor
            i = Num(("sym", "i"))
            env.vars[target_name] = i
            it.assume_sign(("sub", i.term, A.lit(2)), frozenset(["zero", "pos"]))
            tables_before = {id(v_): dict(v_.items) for v_ in env.vars.values() if isinstance(v_, Dct)}
            try:
                it.exec_block(loop.body, env)
            except (_Continue, _Break):
                pass
            return ("loop", [v_ for v_ in env.vars.values() if isinstance(v_, Dct)])
        target_name = loop.target.id if isinstance(loop.target, ast.Name) else "i"
        try:
            for p_ in explore(prog, body_n, {"max_updepth": 0, "hooks": S.hooks()}, max_paths=256):
                label = f"factor() of a negative value: {p_.cond or 'single path'}"
                if p_.outcome != "return":
                    if p_.outcome == "raise" and p_.exc.exc == "ValueError" and "sqrt" in str(p_.exc.detail) + str(p_.exc.site):
                        chk.fail("C16.R4", "C16.R4:factor:negative:raise", label, f"raises {p_.exc}", where=where)
                    else:
                        chk.undecided("C16.R4", "C16.R4:factor:negative", label, f"{p_.outcome} {p_.exc or p_.note}", where)
                    continue
                how, val = p_.value
                tables = [val] if how == "returned" and isinstance(val, Dct) else (val if how == "loop" else [])
                bad_entry = None
                v = ("sym", "value")
                for t_ in tables:
                    for k_, x_ in t_.items.items():
                        tk, tx = p_.interp.to_term(k_), p_.interp.to_term(x_)
                        if tk is None or tx is None:
                            continue
                        try:
                            same = A.equal_nf(("mul", tk, tx), v, dict(p_.interp.eq_subst))
                        except Exception:
                            same = False
                        if not same:
                            st_, w_ = A.differ_witness(("mul", tk, tx), v, subst=dict(p_.interp.eq_subst),
                                                       sampler=lambda rnd, syms, i_: {s_: (-float(rnd.choice([2, 4, 6, 12, 30])) if s_ == v else float(rnd.choice([2, 3]))) for s_ in syms})
                            if st_ == "differ":
                                bad_entry = (A.term_str(tk), A.term_str(tx), w_)
                                break
                    if bad_entry:
                        break
                chk.verdict(bad_entry is None, "C16.R4", "C16.R4:factor:negative", label,
                            "" if bad_entry is None else f"entry {bad_entry[0]} -> {bad_entry[1]} is recorded for a negative value, but "
                            f"{bad_entry[0]} * {bad_entry[1]} is not the value (e.g. {bad_entry[2]}): a rule that factors a common key "
                            f"out of such a table changes the expression's value",
                            witness=None if bad_entry is None else {"entry": bad_entry[:2], "assignment": bad_entry[2]}, where=where)
        except Exception as e:  # noqa: BLE001
            chk.undecided("C16.R4", "C16.R4:factor:negative", "factor() of a negative value", f"not interpretable: {e}", where)
    # ---- loop body on a symbolic trial divisor
    target = loop.target.id if isinstance(loop.target, ast.Name) else None
    if target is None:
        chk.undecided("C16.R4", "C16.R4:factor:body", "loop target", "not a simple name", where)
        return

    def body(it: Interp):
        env = Env(it, f, f.module)
        v = Num(("sym", "value"))
        i = Num(("sym", "i"))
        env.vars["value"] = v
        it.assume_sign(v.term, frozenset(["pos"]))
        # the statements before the loop run first (locals the body uses, the seeded table); the loop body is then
        # interpreted once, on a symbolic trial divisor
        it.hooks["ext:numpy.sqrt"] = lambda it2, path, args, kwargs: Num(("fn", "sqrt", it2.to_term(args[0])))
        it.hooks["ext:math.sqrt"] = it.hooks["ext:numpy.sqrt"]
        it.hooks["ext:math.isqrt"] = lambda it2, path, args, kwargs: Num(("fn", "int", ("fn", "sqrt", it2.to_term(args[0]))))
        it.hooks["ext:numpy.seterr"] = lambda it2, path, args, kwargs: None
        it.hooks["ext:math.isnan"] = lambda it2, path, args, kwargs: False
        it.hooks["ext:numpy.isnan"] = it.hooks["ext:math.isnan"]
        if loop in f.node.body:
            it.exec_block([st for st in f.node.body[:f.node.body.index(loop)]], env)
        tables = [x for x in env.vars.values() if isinstance(x, Dct)]
        if len(tables) == 1:
            table = tables[0]
        else:
            table = Dct()
            env.vars["factors"] = table
        table.items.clear()   # the seeds are judged by their own clause; here only what the body records
        env.vars[target] = i
        it.table = table
        it.assume_sign(("sub", i.term, A.lit(2)), frozenset(["zero", "pos"]))
        try:
            it.exec_block(loop.body, env)
        except (_Continue, _Break):
            it.skipped = True
        return None

    for p in explore(prog, body, {"max_updepth": 0, "hooks": S.hooks()}):
        it = p.interp
        label = f"divisor loop body with {p.cond or 'no condition'}"
        if p.outcome != "return":
            chk.fail("C16.R4", "C16.R4:factor:body:raise", label, f"{p.outcome} {p.exc or p.note}", where=where)
            continue
        v, i = ("sym", "value"), ("sym", "i")
        key_div = it._canon_signed(("mod", v, i))
        divides = None
        if key_div[2] is not None:
            divides = (key_div[2] == 0)
        else:
            al = it.num_facts.get(key_div[0])
            if al is not None:
                divides = True if al == frozenset(["zero"]) else (False if "zero" not in al else None)
        entries = []
        for k, val in it.table.items.items():
            entries.append((it.to_term(k), it.to_term(val)))

        def has(a, b):
            return any(x is not None and y is not None and A.equal_nf(x, a) and A.equal_nf(y, b) for x, y in entries)
        both = has(i, ("div", v, i)) and has(("div", v, i), i)
        if divides is True:
            chk.verdict(both, "C16.R4", "C16.R4:factor:body", label,
                        "" if both else f"i divides value on this path but the table receives {[(A.term_str(a), A.term_str(b)) for a, b in entries if a and b]}",
                        where=where)
        elif divides is False:
            chk.verdict(not entries, "C16.R4", "C16.R4:factor:body", label,
                        "" if not entries else "an entry is recorded although i does not divide value", where=where)
        else:
            # the path never tested divisibility: if it records nothing, divisors satisfying the path condition are skipped
            if both:
                chk.fail("C16.R4", "C16.R4:factor:body:unguarded", label, "entries recorded without testing that i divides value",
                         where=where)
            else:
                w = _skip_witness(it)
                if w is not None:
                    chk.fail("C16.R4", "C16.R4:factor:body:skips-divisor", label,
                             f"this path leaves the loop body without testing value % i: the divisor pair ({w['i']}, "
                             f"{w['value'] // w['i']}) of {w['value']} is never recorded",
                             witness=w, where=where)
                else:
                    chk.ok("C16.R4", "C16.R4:factor:body", label + " (no admissible divisor satisfies the path condition)", where=where)


def _skip_witness(it: Interp) -> Optional[dict]:
    from sa.rulecases import _fact_env
    subst, ok, cons = _fact_env(it)
    for value in range(4, 401):
        for i in range(2, int(value ** 0.5) + 1):
            if value % i:
                continue
            env = {("sym", "value"): float(value), ("sym", "i"): float(i)}
            try:
                if ok(env):
                    return {"value": value, "i": i}
            except Exception:
                continue
    return None


def run(chk: Check) -> None:
    prog = program(chk)
    S = Summaries(prog)
    chk.technique = "abstract interpretation of make_term / get_term_ex / the divisor loop body on symbolic components + " \
                    "normal-form comparison"
    chk.explanation = (
        "Decides: (R1) for each component class the tree make_term builds has the value coefficient * variable^exponent; "
        "(R2) on each of get_term_ex's return paths the value of the matched shape equals c * v^e of the returned triple; "
        "(R3) get_term_ex(make_term(c, v, e)) returns (c, v, e) with an absent coefficient read as 1; (R4) factor() seeds "
        "(1, v), (v, 1), tries i in 2..floor(sqrt(v)) and its loop body, interpreted once on a symbolic trial divisor, "
        "records (i, v/i) and (v/i, i) on every path on which i divides v and nothing otherwise - a path that leaves the "
        "body without testing divisibility is reported with a concrete skipped divisor pair; (R6-R8) on sums of two or "
        "three natural-order terms (ten term forms, symbolic coefficients and exponents) has_like_terms gives the same "
        "answer in every order and grouping, terms_are_like is reflexive and symmetric, and the predicates do not raise; "
        "(R9) no term predicate raises on any expression tree of depth <= 2 over constants, variables, negation and the "
        "five binary operators, for every sign class of the payloads. Not decided: order invariance for sums of more than "
        "three terms or other term forms, deeper trees, numpy.sqrt rounding at the range end for huge values.")
    chk.not_decided = ["order/grouping invariance beyond three terms of the listed forms", "trees deeper than 2 levels for R9"]
    chk.assumptions = ["W for get_term_ex's argument", "numpy.sqrt(value) >= exact square root for the trial range"]
    run_make_term(chk, prog, S)
    run_get_term_ex(chk, prog, S)
    run_factor(chk, prog, S)
    run_like_terms(chk, prog, S)
    run_no_raise(chk, prog)
    # 'from the parsed text ... returns exactly what was written': the letters and digits of a term reach the term
    # extractor through the tokenizer, so its faithfulness clause (C11) runs under this property as well
    from .c11 import run_tokenize, universe, SMALL_ALPHABET
    chk.rule("C16.R10", "the tokenizer hands the written letters and digits on unchanged (clause of C11 on symbolic strings)",
             minimum=300)
    for n_chars in (1, 2):
        run_tokenize(chk, prog, n_chars, universe(), f"U{n_chars}", remap=lambda rid: "C16.R10")
    run_tokenize(chk, prog, 3, frozenset(SMALL_ALPHABET), "S3", remap=lambda rid: "C16.R10")
    # contracts of other parts of the library this check takes for granted (summaries, token model, reference grammar):
    # the clauses that check the source against them, replayed under this property (props/contracts.py)
    from .contracts import run_contracts
    run_contracts(chk, prog, ['parser'])
    chk.exhaustive = True
    chk.max_undecided = 0


# --------------------------------------------------------------------------- R9 no raise on any small expression
_UNARY = ("Negate",)
_BINARY = ("Add", "Subtract", "Multiply", "Divide", "Power")
_PREDICATES = ("get_term", "get_term_ex", "is_simple_term", "is_preferred_term_form", "has_like_terms", "get_terms",
               "get_sub_terms", "is_add_or_sub")


def _all_trees(depth: int) -> list:
    leaves = [("const",), ("var", "x")]
    if depth == 0:
        return leaves
    sub = _all_trees(depth - 1)
    out = list(leaves)
    out += [(u, t) for u in _UNARY for t in sub]
    out += [(b, l, r) for b in _BINARY for l in sub for r in sub]
    return out


def _number(spec, counter):
    """Give every constant leaf its own payload name."""
    if spec[0] == "const":
        counter[0] += 1
        return ("const", f"k{counter[0]}")
    if spec[0] == "var":
        return spec
    return (spec[0],) + tuple(_number(c, counter) for c in spec[1:])


def _tree_str(spec) -> str:
    if spec[0] == "const":
        return "k"
    if spec[0] == "var":
        return spec[1]
    if len(spec) == 2:
        return f"-({_tree_str(spec[1])})"
    op = {"Add": "+", "Subtract": "-", "Multiply": "*", "Divide": "/", "Power": "^"}[spec[0]]
    return f"({_tree_str(spec[1])} {op} {_tree_str(spec[2])})"


def _no_raise_worker(task):
    repo, specs = task
    from sa.parsecases import _setup
    from .c08 import Pat
    prog, S = _setup(repo)
    fns = [(n, prog.func("util", n)) for n in _PREDICATES]
    tal = prog.func("util", "terms_are_like")
    cfg = {"max_updepth": 0, "hooks": S.hooks(), "max_steps": 80000, "max_inline": 60}
    oks = []
    bad = []
    for spec in specs:
        n_ok = 0
        n_bad0 = len(bad)

        def body(it: Interp, spec=spec):
            pat = Pat(it, concrete_idents=True)
            root = pat.build(_number(spec, [0]))
            it._set_entry(it.cells[root.cid], "parent", None)
            out = []
            for name, fn in fns:
                try:
                    it.call_function(fn, [root], {})
                except AbsRaise as e:
                    out.append((name, e.exc, e.site, e.detail[:120]))
            cell = it.cells[root.cid]
            l, r = cell.entry.get("left"), cell.entry.get("right")
            if isinstance(l, Node) and isinstance(r, Node):
                for a, b in ((l, r), (r, l)):
                    try:
                        it.call_function(tal, [a, b], {})
                    except AbsRaise as e:
                        out.append(("terms_are_like", e.exc, e.site, e.detail[:120]))
            return out
        for p in explore(prog, body, cfg, max_paths=400):
            if p.outcome == "return" and not p.value:
                n_ok += 1
            elif p.outcome == "return":
                for name, exc, site, detail in p.value:
                    bad.append({"tree": _tree_str(spec), "fn": name, "exc": exc, "site": site, "detail": detail, "cond": p.cond[-160:]})
            else:
                bad.append({"tree": _tree_str(spec), "fn": "?", "exc": p.outcome, "site": "", "detail": str(p.exc or p.note)[:160],
                            "cond": p.cond[-160:], "undecided": True})
        if len(bad) == n_bad0:
            oks.append((_tree_str(spec), n_ok))
    return oks, bad


def run_no_raise(chk: Check, prog: Program) -> None:
    import multiprocessing as mp
    import os
    from sa.report import REPO
    chk.rule("C16.R9", "no term predicate raises on any expression of depth <= 2 over constants, variables, negation and the "
             "five binary operators (every payload sign class)", minimum=2000)
    trees = _all_trees(2)
    chk.analysed["no_raise_trees"] = len(trees)
    chunk = max(20, len(trees) // 64)
    tasks = [(str(REPO), trees[i:i + chunk]) for i in range(0, len(trees), chunk)]
    nproc = min(int(os.environ.get("VERIF_JOBS", "16")), os.cpu_count() or 1)
    if nproc > 1:
        with mp.get_context("fork").Pool(nproc) as pool:
            res = pool.map(_no_raise_worker, tasks, chunksize=1)
    else:
        res = [_no_raise_worker(t) for t in tasks]
    for r in res:
        for t in r[0]:
            chk.ok("C16.R9", "C16.R9", f"no predicate raises on {t[0]} ({t[1]} payload classes)", where="mathy_core/util.py")
    for b in [x for r in res for x in r[1]]:
        label = f"{b['fn']} on {b['tree']} :: {b['cond'] or 'no condition'}"
        if b.get("undecided"):
            chk.undecided("C16.R9", f"C16.R9:{b['tree']}", label, f"{b['exc']} {b['detail']}", "mathy_core/util.py")
        else:
            chk.fail("C16.R9", f"C16.R9:{b['fn']}:{b['exc']}@{b['site'].split(':L')[0]}", label,
                     f"raises {b['exc']} at {b['site']}: {b['detail']}", witness={"tree": b["tree"], "path": b["cond"]},
                     where="mathy_core/util.py:" + b["fn"])


# --------------------------------------------------------------------------- like-term predicates on bounded sums
TERM_FORMS = {
    "c": lambda b, i: ("const", f"k{i}"),
    "x": lambda b, i: ("var", "x"),
    "y": lambda b, i: ("var", "y"),
    "cx": lambda b, i: ("Multiply", ("const", f"k{i}"), ("var", "x")),
    "cy": lambda b, i: ("Multiply", ("const", f"k{i}"), ("var", "y")),
    "x^n": lambda b, i: ("Power", ("var", "x"), ("const", f"e{i}")),
    "cx^n": lambda b, i: ("Multiply", ("const", f"k{i}"), ("Power", ("var", "x"), ("const", f"e{i}"))),
    "-x": lambda b, i: ("Negate", ("var", "x")),
    "xy": lambda b, i: ("Multiply", ("var", "x"), ("var", "y")),
    "xx": lambda b, i: ("Multiply", ("var", "x"), ("var", "x")),
}


def _build_sum(pat, arrangement, specs):
    """arrangement: nested tuple of indices, e.g. ((0, 1), 2); specs: list of term specs."""
    if isinstance(arrangement, int):
        return specs[arrangement]
    return ("Add", _build_sum(pat, arrangement[0], specs), _build_sum(pat, arrangement[1], specs))


def _groupings(seq):
    """Every way of bracketing the sequence into a binary sum (Catalan number of them)."""
    if len(seq) == 1:
        return [seq[0]]
    out = []
    for i in range(1, len(seq)):
        for l in _groupings(seq[:i]):
            for r in _groupings(seq[i:]):
                out.append((l, r))
    return out


def _arrangements(n: int, perms=None):
    import itertools
    out = []
    for perm in (perms if perms is not None else itertools.permutations(range(n))):
        out.extend(_groupings(tuple(perm)))
    return out


# sums of four terms: every bracketing (5) of these orders; the thorough tier takes every order (24)
FOUR_TERM_SUMS = [("cx", "c", "cy", "cx"), ("x", "c", "y", "x^n"), ("c", "cx", "y", "-x"), ("cx^n", "c", "y", "cx^n"),
                  ("c", "x", "y", "c"), ("cx", "cy", "c", "x^n")]
FOUR_TERM_ORDERS = [(0, 1, 2, 3), (3, 2, 1, 0), (1, 2, 3, 0), (2, 0, 3, 1)]


def run_like_terms(chk: Check, prog: Program, S: Summaries) -> None:
    from .c08 import Pat
    chk.rule("C16.R6", "has_like_terms gives the same answer for every order and grouping of the same terms (sums of 2-3 terms: every "
             "order and bracketing; selected sums of 4 terms: every bracketing, nested groups on either side)",
             minimum=30)
    chk.rule("C16.R7", "terms_are_like is reflexive and symmetric (pairs of natural-order term forms)", minimum=40)
    chk.rule("C16.R8", "the term predicates do not raise on sums of natural-order terms", minimum=30)
    hlt = prog.func("util", "has_like_terms")
    tal = prog.func("util", "terms_are_like")
    preds = [prog.func("util", n) for n in ("is_simple_term", "is_preferred_term_form", "get_sub_terms", "get_terms")]
    import itertools
    names = list(TERM_FORMS)
    cfg = {"max_updepth": 0, "hooks": S.hooks(), "max_steps": 80000, "max_inline": 60}

    def mk_consts(it: Interp, pat: "Pat") -> None:
        pass

    # ---- R7 symmetry / reflexivity
    for a, b in itertools.combinations_with_replacement(names, 2):
        def body(it: Interp, a=a, b=b):
            pat = Pat(it, concrete_idents=True)
            root = pat.build(("Add", TERM_FORMS[a](pat, 1), TERM_FORMS[b](pat, 2)))
            cell = it.cells[root.cid]
            it._set_entry(cell, "parent", None)
            A_, B_ = cell.entry["left"], cell.entry["right"]
            out = {}
            for name, (p, q) in (("ab", (A_, B_)), ("ba", (B_, A_)), ("aa", (A_, A_)), ("bb", (B_, B_))):
                try:
                    out[name] = ("ok", it.call_function(tal, [p, q], {}))
                except AbsRaise as e:
                    out[name] = ("raise", e.exc)
            return out
        for p in explore(prog, body, cfg, max_paths=2000):
            label = f"terms_are_like on ({a}, {b}) with {p.cond[-120:] or 'no condition'}"
            if p.outcome != "return":
                chk.undecided("C16.R7", f"C16.R7:{a},{b}", label, f"{p.outcome} {p.exc or p.note}", tal.where)
                continue
            out = p.value
            probs = []
            for k in ("ab", "ba", "aa", "bb"):
                if out[k][0] == "raise":
                    probs.append(f"raises {out[k][1]} ({k})")
            if not probs:
                if out["ab"][1] != out["ba"][1]:
                    probs.append(f"terms_are_like({a}, {b}) = {out['ab'][1]} but terms_are_like({b}, {a}) = {out['ba'][1]}")
                if out["aa"][1] is not True:
                    probs.append(f"terms_are_like({a}, {a}) = {out['aa'][1]}")
                if out["bb"][1] is not True:
                    probs.append(f"terms_are_like({b}, {b}) = {out['bb'][1]}")
            key = f"C16.R7:terms_are_like:{'asymmetric' if any('but' in x for x in probs) else 'pair'}:{a},{b}"
            chk.verdict(not probs, "C16.R7", key if probs else "C16.R7:terms_are_like", label, "; ".join(probs),
                        witness={"terms": [a, b], "path": p.cond[-200:]}, where=tal.where)

    # ---- R6 order / grouping invariance, R8 no raise
    multisets = [c for c in itertools.combinations_with_replacement(names, 2)] + \
                [c for c in itertools.combinations_with_replacement(["c", "x", "cx", "x^n", "cx^n", "y", "-x"], 3)]
    if chk.tier == "quick":
        multisets = multisets[:55] + multisets[55::3]
    multisets = multisets + FOUR_TERM_SUMS
    jobs = []
    for ms in multisets:
        n = len(ms)
        if n < 4:
            jobs.append((ms, _arrangements(n)))
        elif chk.tier == "quick":
            jobs.append((ms, _arrangements(n, FOUR_TERM_ORDERS)))
        else:
            # every order, four at a time; each batch starts with the same reference arrangement, so agreement inside every
            # batch is agreement of all 120 arrangements
            perms = list(itertools.permutations(range(4)))
            ref = _groupings((0, 1, 2, 3))[-1]
            for i in range(0, len(perms), 4):
                jobs.append((ms, [ref] + _arrangements(n, perms[i:i + 4])))
    for ms, arrs in jobs:
        n = len(ms)

        def body(it: Interp, ms=ms, arrs=arrs):
            results = []
            for arr in arrs:
                pat = Pat(it, concrete_idents=True)
                specs = [TERM_FORMS[f](pat, i) for i, f in enumerate(ms)]
                # payload symbols must be shared between arrangements: name constants by index
                root = pat.build(_build_sum(pat, arr, specs))
                it._set_entry(it.cells[root.cid], "parent", None)
                for nm, cid in pat.names.items():
                    if nm.startswith(("k", "e")) and it.cells[cid].kinds <= {"ConstantExpression"}:
                        it.cells[cid].entry["value"] = it.cells[cid].cur["value"] = Num(("sym", nm))
                try:
                    results.append(("ok", it.call_function(hlt, [root], {})))
                except AbsRaise as e:
                    results.append(("raise", e.exc, e.site))
                extra = []
                for fn in preds:
                    try:
                        it.call_function(fn, [root], {})
                    except AbsRaise as e:
                        extra.append((fn.name, e.exc, e.site))
                results[-1] = results[-1] + (tuple(extra),)
            return results

        for p in explore(prog, body, cfg, max_paths=3000):
            label = f"sum of ({', '.join(ms)}) in {len(arrs)} arrangements with {p.cond[-100:] or 'no condition'}"
            if p.outcome != "return":
                chk.undecided("C16.R6", f"C16.R6:{ms}", label, f"{p.outcome} {p.exc or p.note}", hlt.where)
                continue
            res = p.value
            raises = [r for r in res if r[0] == "raise"]
            extras = [e for r in res for e in r[-1]]
            if raises or extras:
                what = raises[0][1:3] if raises else extras[0]
                chk.fail("C16.R8", f"C16.R8:{what[0] if not raises else 'has_like_terms'}:{what[-2] if not raises else what[0]}", label,
                         f"a term predicate raises on a sum of natural-order terms: {what}",
                         witness={"terms": list(ms), "path": p.cond[-200:]}, where=hlt.where)
            else:
                chk.ok("C16.R8", "C16.R8", label, where=hlt.where)
            answers = [r[1] for r in res if r[0] == "ok"]
            if len(set(map(repr, answers))) > 1:
                pairs = [(arrs[i], answers[i]) for i in range(len(answers))]
                t = next(a for a in pairs if a[1] is True)
                f = next(a for a in pairs if a[1] is not True)
                chk.fail("C16.R6", f"C16.R6:has_like_terms:{','.join(ms)}", label,
                         f"has_like_terms is {t[1]} for arrangement {t[0]} and {f[1]} for arrangement {f[0]} of the same terms "
                         f"(indices into {list(ms)})", witness={"terms": list(ms), "path": p.cond[-200:]}, where=hlt.where)
            else:
                chk.ok("C16.R6", "C16.R6:has_like_terms", label, where=hlt.where)
