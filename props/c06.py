"""C06 - a rule that reports it applies can be applied; the applicability check is pure; node search.

R1 purity: no path of can_apply_to stores to a pre-existing node, re-parents one through a constructor,
   or writes rule-object state (J-pure over every E3 classifier path).
R2 totality: no raise outcome on any path (classifier or, after a positive answer, apply_to); the value returned
   is an ExpressionChangeRule whose result is a node.
R4 node search: find_nodes / find_node interpreted over an abstract in-order sequence of three nodes with an
   opaque can_apply_to: r_index, membership, order, STOP behaviour.
"""
from __future__ import annotations

from typing import Any, Dict, List

from sa.absint import (ALL_KINDS, AbsRaise, Bound, Fn, Interp, Lst, Node, Opaque, Rec, Unsupported, _MISSING, explore)
from sa.model import Program
from sa.report import AnalysisError, Check
from .common import case_label, opts_str, program, rule_records, where_rule

INTERNAL = ("bound",)


def run_r1_r2(chk: Check, recs: List[dict], pid: str = "C06") -> None:
    chk.rule(f"{pid}.R1", "the applicability check performs no store on a pre-existing node and no rule-state write "
             "(every classifier path)", minimum=300)
    chk.rule(f"{pid}.R2", "no path raises (in the check, or in apply_to after a positive answer) and the returned change "
             "carries a node result", minimum=300)
    for r in recs:
        label = case_label(r)
        # ---- R1
        imp = r.get("impure", [])
        hard = [i for i in imp if i["kind"] in ("store", "all_changed")]
        soft = [i for i in imp if i["kind"] == "rule-state"]
        if hard:
            i0 = hard[0]
            chk.fail(f"{pid}.R1", f"{pid}.R1:{r['rule']}:{i0['kind']}:{i0.get('field', '')}:{(i0.get('stack') or ['?'])[-1]}",
                     f"{label}", f"can_apply_to modifies the tree: {i0}", witness={"path": r["cond"][:400], "effects": hard[:4]},
                     where=where_rule(r, "can_apply_to"))
        elif soft:
            chk.undecided(f"{pid}.R1", f"{pid}.R1:{r['rule']}:rule-state:{soft[0].get('field')}", label,
                          f"can_apply_to writes rule-object state {soft[0]}: history dependence not decided",
                          where_rule(r, "can_apply_to"))
        else:
            chk.ok(f"{pid}.R1", f"{pid}.R1:{r['rule']}", label, where=where_rule(r, "can_apply_to"))
        if r["outcome"] == "history":
            site = r.get("note", "").split(" at ")[-1].split(":L")[0]
            chk.fail(f"{pid}.R1", f"{pid}.R1:{r['rule']}:history-dependent:{site}", label,
                     f"the answer is read from state that earlier calls left on the rule object ({r.get('note')}): node ids are "
                     f"preserved by clone() and by in-place rewrites, so the same key can denote a different tree and the rule "
                     f"no longer gives the same answer for the same tree",
                     witness={"path": r["cond"][:400], "phase": r.get("phase")}, where=where_rule(r, "can_apply_to"))
            continue
        # ---- R2
        if r["outcome"] == "bound":
            chk.undecided(f"{pid}.R2", f"{pid}.R2:{r['rule']}:bound", label, r.get("note", ""), where_rule(r))
        elif r["outcome"] == "raise":
            rs = r["raise"]
            phase = r.get("phase")
            what = "apply_to raises after can_apply_to answered True" if phase == "apply" else \
                "can_apply_to itself raises on a well-formed tree"
            chk.fail(f"{pid}.R2", f"{pid}.R2:{r['rule']}:{phase}:{rs['exc']}@{rs['site'].split(':L')[0]}:{r['arg_shape']}",
                     label, f"{what}: {rs['exc']} at {rs['site']} ({rs['detail']})",
                     witness={"shape": r["arg_shape"], "position": r["ctx"], "path": r["cond"][:400], "facts": r.get("facts")},
                     where=where_rule(r, "apply_to" if phase == "apply" else "can_apply_to"))
        elif r["outcome"] == "applied":
            if not r.get("returns_change") or not r.get("result_is_node"):
                chk.fail(f"{pid}.R2", f"{pid}.R2:{r['rule']}:no-result", label,
                         f"apply_to does not return a change whose result is an expression: {r.get('result_repr')}",
                         witness={"path": r["cond"][:400]}, where=where_rule(r))
            else:
                chk.ok(f"{pid}.R2", f"{pid}.R2:{r['rule']}", label, where=where_rule(r))
        else:
            chk.ok(f"{pid}.R2", f"{pid}.R2:{r['rule']}:not-applicable", label, where=where_rule(r, "can_apply_to"))


# --------------------------------------------------------------------------- R4 node search
def _applicable_kinds(recs) -> dict:
    """Per rule: the node classes at which some case of the rule analysis is applicable."""
    import re as _re
    out: dict = {}
    for r in recs or []:
        if r.get("outcome") != "applied":
            continue
        head = (r.get("arg_shape") or "").split("(")[0]
        names = _re.findall(r"[A-Za-z]+", head)
        for n in names:
            out.setdefault(r["rule"], set()).add(n + "Expression")
    return out


def run_r4(chk: Check, prog: Program, recs=None) -> None:
    chk.rule("C06.R4", "find_nodes/find_node over an abstract in-order sequence: indices, membership, order, stop",
             minimum=12)
    base = prog.cls("BaseRule")
    applicable = _applicable_kinds(recs)
    targets = [("BaseRule", base)] + [(c.name, c) for c in sorted(prog.rule_classes(), key=lambda c: c.name)]
    for (rname, rcls), fname in [(t, f) for t in targets for f in ("find_nodes", "find_node")]:
        m = prog.find_method(rname, fname)
        if m is None:
            raise AnalysisError(f"{rname}.{fname} vanished")

        def body(it: Interp, m=m, fname=fname, rcls=rcls, rname=rname):
            if rname == "BaseRule":
                rule = Rec(base)
            else:
                it.retained_mode += 1
                rule = it.instantiate(rcls, [], {})
                it.retained_mode -= 1
            seq = [it.new_summary(ALL_KINDS, "arg") for _ in range(3)]
            root = it.new_summary(ALL_KINDS, "arg")
            it.seq = seq
            it.visits = []
            it.answers = {}

            def h_can(it2, info, args, kwargs):
                node = args[1]
                if not isinstance(node, Node):
                    raise Unsupported("can_apply_to on non-node")
                a = it2.atom(f"applicable({node.cid})")
                it2.answers[node.cid] = a
                it2.visits.append(("ask", node.cid, dict(it2.cells[node.cid].cur)))
                return a

            def h_visit(order):
                def h(it2, info, args, kwargs):
                    selfv, fn = args[0], args[1]
                    if not (isinstance(selfv, Node) and selfv.cid == root.cid):
                        raise Unsupported("visit on unexpected receiver")
                    it2.visits.append(("traversal", order))
                    for i, n in enumerate(seq):
                        r = it2.call(fn, [n, Opaque(f"depth{i}"), None], {})
                        it2.visits.append(("visited", n.cid, r))
                        if r == "stop":
                            return "stop"
                    return None
                return h

            it.hooks["BaseRule.can_apply_to"] = h_can
            for c_ in prog.rule_classes():
                if "can_apply_to" in c_.methods:
                    it.hooks[f"{c_.name}.can_apply_to"] = h_can
            it.hooks["BinaryTreeNode.visit_inorder"] = h_visit("inorder")
            it.hooks["BinaryTreeNode.visit_preorder"] = h_visit("preorder")
            it.hooks["BinaryTreeNode.visit_postorder"] = h_visit("postorder")
            return it.call_function(m, [rule, root], {})

        results = explore(prog, body, {"max_updepth": 0})
        for p in results:
            it = p.interp
            where = m.where
            ans = getattr(it, "answers", {})
            seq = [n.cid for n in it.seq]
            label = f"{rname}.{fname} with applicable=" + "".join("T" if ans.get(c) else ("F" if c in ans else "-") for c in seq)
            key = f"C06.R4:{fname}" if rname == "BaseRule" else f"C06.R4:{rname}.{fname}"
            if p.outcome != "return":
                chk.fail("C06.R4", key + ":raise", label, f"search raises/does not terminate: {p.exc or p.note}", where=where)
                continue
            trav = [v for v in it.visits if v[0] == "traversal"]
            if [t[1] for t in trav] != ["inorder"]:
                chk.fail("C06.R4", key + ":order", label, f"search must use exactly one in-order traversal, uses {trav}",
                         where=where)
                continue
            visited = [v[1] for v in it.visits if v[0] == "visited"]
            expected_true = [c for c in seq if ans.get(c)]
            # a visited node that the search never asked about, although the rule is applicable at nodes of its class
            skipped = []
            for c in visited:
                if c not in ans and not (fname == "find_node" and expected_true and seq.index(c) > seq.index(expected_true[0])):
                    ks = set(it.kinds_of(it.cells[c])) & applicable.get(rname, set())
                    if ks:
                        skipped.append((seq.index(c), sorted(k.replace("Expression", "") for k in ks)))
            if skipped:
                chk.fail("C06.R4", key + ":never-asked", label,
                         f"in-order node #{skipped[0][0]} is skipped without asking can_apply_to although {rname} is applicable at "
                         f"{'/'.join(skipped[0][1])} nodes (rule analysis): the search does not return every applicable node",
                         witness={"skipped": skipped}, where=where)
                continue
            if fname == "find_nodes":
                problems = []
                if visited != seq:
                    problems.append(f"visits {len(visited)} of 3 nodes (a STOP is returned)")
                v = p.value
                got = [x.cid for x in v.items] if isinstance(v, Lst) and all(isinstance(x, Node) for x in v.items) else None
                if got is None or got != [c for c in seq if ans.get(c)]:
                    problems.append(f"returned list {got} != applicable nodes in order {expected_true}")
                for i, c in enumerate(seq):
                    ri = it.cells[c].cur.get("r_index", _MISSING)
                    if c in visited and ri != i:
                        problems.append(f"r_index of in-order node #{i} is {ri!r}")
                for a in it.visits:
                    if a[0] == "ask" and a[2].get("r_index", _MISSING) is _MISSING:
                        problems.append("can_apply_to is asked before r_index is recorded")
                        break
                chk.verdict(not problems, "C06.R4", key, label, "; ".join(problems), witness={"answers": label}, where=where)
            else:
                problems = []
                v = p.value
                first = expected_true[0] if expected_true else None
                if first is None:
                    if v is not None:
                        problems.append(f"returns {v!r} although nothing applies")
                    if visited != seq:
                        problems.append("does not visit all nodes when nothing applies")
                else:
                    if not (isinstance(v, Node) and v.cid == first):
                        problems.append(f"returns {v!r}, first applicable node is #{seq.index(first)}")
                    if visited != seq[: seq.index(first) + 1]:
                        problems.append(f"visits {len(visited)} nodes; must stop right after the first match")
                chk.verdict(not problems, "C06.R4", key, label, "; ".join(problems), witness={"answers": label}, where=where)


class _NoRuleDecl:
    """A shared clause declares its own rules; under another property the rule is declared once by the caller."""

    def __init__(self, chk):
        self._chk = chk

    def __getattr__(self, name):
        return getattr(self._chk, name)

    def rule(self, rid, text, minimum=1):
        pass


def run(chk: Check) -> None:
    prog = program(chk)
    chk.technique = "abstract interpretation (effect log per classifier path, raise outcomes per case) over the " \
                    "kind/None/sign domain; abstract in-order sequence for the node search"
    chk.explanation = (
        "Decides: (R1) on every path of every rule's can_apply_to (all options) no store reaches a node that existed "
        "before the call and no rule-object state is written; (R2) no path of can_apply_to raises and, after a "
        "positive answer, no path of apply_to raises (asserts, None dereferences, evaluate() of the folded subtree "
        "using the may-raise facts of the operator table) and the change returned carries a node; (R4) find_nodes / "
        "find_node, interpreted over an abstract in-order sequence of three nodes with an opaque applicability "
        "answer per node, record r_index 0,1,2 before asking, return exactly the applicable nodes in order, never "
        "stop early / stop right after the first match; (R5) clone() / clone_from_root(), summarised in R2, conform to the "
        "summary (the clauses C13.R2-R4). Not decided: behaviour on ill-formed trees; the in-order "
        "traversal itself (C14).")
    chk.assumptions = ["W (well-formed input trees)", "visit_inorder calls the visitor once per node in in-order and "
                       "honours STOP (C14)", "operator may-raise table from C05"]
    recs = rule_records(chk)
    run_r1_r2(chk, recs)
    run_r4(chk, prog, recs)
    # R2 takes clone() / clone_from_root() by their contract (a copy, no exception): the clauses of C13 that check the
    # source against that contract run under this property as well, since 'applying completes without raising' rests on it
    from sa.summaries import Summaries
    from .c13 import run_r2 as clone_clause, run_r4 as clone_from_root_clause
    S_ = Summaries(prog)
    proxy = chk.renamed({"C13.R2": "C06.R5", "C13.R3": "C06.R5", "C13.R4": "C06.R5"})
    chk.rule("C06.R5", "clone() and clone_from_root(), which the rules call, return a copy and never raise on a well-formed tree "
             "(clauses C13.R2-R4)", minimum=100)
    clone_clause(_NoRuleDecl(proxy), prog, S_)
    clone_from_root_clause(_NoRuleDecl(proxy), prog, S_)
    # contracts of other parts of the library this check takes for granted (summaries, token model, reference grammar):
    # the clauses that check the source against them, replayed under this property (props/contracts.py)
    from .contracts import run_contracts
    run_contracts(chk, prog, ['evaluate', 'traversal'])
    chk.exhaustive = True
    chk.max_undecided = 0
