"""C07 - rewritten trees are structurally sound and leave the untouched context intact.

R1 result audit (J-links, arity, no node twice, root without parent)   R3 nothing dropped / variables kept
R4 re-attachment on the saved parent/side                              R5 who writes link fields
R6 the tree a clone was taken from is not modified (BalancedMove)      R7 context above the rewrite untouched
"""
from __future__ import annotations

import ast
from typing import Dict, List

from sa.model import Program, unparse
from sa.report import Check
from .common import case_label, program, rule_records, where_rule

LINK_FIELDS = ("left", "right", "parent")
# functions allowed to assign link fields directly: they are the link primitives (audited by C15 / R1 through E3)
LINK_WRITERS = {
    "mathy_core/tree.py:BinaryTreeNode.__init__", "mathy_core/tree.py:BinaryTreeNode.set_left",
    "mathy_core/tree.py:BinaryTreeNode.set_right", "mathy_core/tree.py:BinaryTreeNode.rotate",
    "mathy_core/util.py:unlink",
}


def run_cases(chk: Check, recs: List[dict], pid: str = "C07") -> None:
    chk.rule(f"{pid}.R1", "result tree: child.parent points back, arity per class, no node twice", minimum=400)
    chk.rule(f"{pid}.R3", "no sub-expression or variable of the matched region is dropped or invented", minimum=400)
    chk.rule(f"{pid}.R4", "a new result root is attached on the slot of the matched node (saved parent / side)",
             minimum=400)
    chk.rule(f"{pid}.R6", "no store to the original tree after clone_from_root", minimum=50)
    chk.rule(f"{pid}.R7", "nodes above the rewritten region keep their links (only the rewritten slot changes)",
             minimum=400)
    for r in recs:
        if r["outcome"] != "applied" or not r.get("result_is_node") or "judge_error" in r:
            continue
        label = case_label(r)
        w = where_rule(r)
        wit = {"before": r.get("before_shape"), "after": r.get("after_shape"), "position": r.get("ctx"),
               "path": r["cond"][:300]}
        for rid, field, what in ((f"{pid}.R1", "links", "structural audit of the result"),
                                 (f"{pid}.R3", "relevant", "dropped / invented sub-expressions"),
                                 (f"{pid}.R4", "attach", "re-attachment"),
                                 (f"{pid}.R7", "context", "context above the rewrite")):
            probs = r.get(field, [])
            if rid.endswith("R3") and r["rule"] == "ConstantsSimplifyRule":
                pass
            if probs:
                p0 = probs[0]
                chk.fail(rid, f"{rid}:{r['rule']}:{p0['what']}:{r.get('before_shape')}", label,
                         f"{what}: {p0}", witness=dict(wit, problems=probs[:4]), where=w)
            else:
                chk.ok(rid, f"{rid}:{r['rule']}", label, where=w)
        if r["rule"] == "BalancedMoveRule":
            probs = r.get("orig_untouched", [])
            if probs:
                chk.fail(f"{pid}.R6", f"{pid}.R6:{r['rule']}:{probs[0]['what']}", label, str(probs[0]),
                         witness=dict(wit, problems=probs[:4]), where=w)
            else:
                chk.ok(f"{pid}.R6", f"{pid}.R6:{r['rule']}", label, where=w)


def run_r5(chk: Check, prog: Program) -> None:
    from sa.typelite import expr_class, is_node_class, local_types
    chk.rule("C07.R5", "link fields (.left/.right/.parent) of tree nodes are assigned only inside the link primitives",
             minimum=10)
    for f in prog.all_functions():
        env = None
        for n in ast.walk(f.node):
            targets = []
            if isinstance(n, ast.Assign):
                targets = n.targets
            elif isinstance(n, (ast.AugAssign, ast.AnnAssign)):
                targets = [n.target]
            for t in targets:
                for tt in (t.elts if isinstance(t, (ast.Tuple, ast.List)) else [t]):
                    if not (isinstance(tt, ast.Attribute) and tt.attr in LINK_FIELDS):
                        continue
                    if env is None:
                        env = local_types(prog, f)
                    rc = expr_class(prog, f, tt.value, env)
                    isnode = is_node_class(prog, rc)
                    key = f"C07.R5:{f.where}:{unparse(tt)}"
                    if isnode is False:
                        chk.info("C07.R5", key, f"{unparse(n)} in {f.qualname}", f"receiver is a {rc}, not a tree node",
                                 f.where)
                        continue
                    if f.where in LINK_WRITERS:
                        chk.ok("C07.R5", key, f"{unparse(n)} in {f.qualname}", where=f.where)
                    elif isnode is None:
                        chk.info("C07.R5", key, f"{unparse(n)} in {f.qualname}", "receiver type not resolved", f.where)
                    else:
                        # a writer outside the list confirmed by reading is not by itself a defect (a correct new primitive
                        # would look the same): it is listed, and what it does to a rewritten tree is decided by the
                        # interpreted link audit (R1), which executes every writer on the paths of the rules
                        chk.info("C07.R5", key, f"{unparse(n)} in {f.qualname}",
                                 "link field assigned outside the confirmed primitives (__init__/set_left/set_right/rotate/"
                                 "unlink): judged through the interpreted audit of R1", f.where)


def run(chk: Check) -> None:
    prog = program(chk)
    chk.technique = "abstract interpretation with a materialising heap: audit of the final points-to graph per case; " \
                    "who-may-write rule for link fields"
    chk.explanation = (
        "Decides, for every applicable case of every rule and option (E3 enumeration over kind/None/sign/identifier "
        "classes, any position in any well-formed tree): the result tree has child.parent == parent for every link, "
        "operators have the operands their arity requires, no node object is reachable twice, a new result root sits "
        "in the slot the matched node occupied under its saved parent (or has no parent when the matched node was "
        "the root), nodes above the rewritten region keep all links except that slot, the sets of opaque "
        "sub-expressions and variables before and after coincide, BalancedMove never stores to the tree it cloned "
        "from, and link fields are assigned only inside the five link primitives. Not decided: bookkeeping fields "
        "(classes, _changed, ids).")
    chk.assumptions = ["W (well-formed input trees)", "clone() summary conforms to source (C13)"]
    recs = rule_records(chk)
    run_cases(chk, recs)
    run_r5(chk, prog)
    # contracts of other parts of the library this check takes for granted (summaries, token model, reference grammar):
    # the clauses that check the source against them, replayed under this property (props/contracts.py)
    from .contracts import run_contracts
    run_contracts(chk, prog, ['clone', 'traversal'])
    chk.exhaustive = True
    chk.max_undecided = 0
