"""C13 - cloning yields an identical, independent tree and locates the cloned node.

R1 completeness: every attribute that a class's __init__ chain sets from a constructor parameter and that is read
   elsewhere in the package is assigned on the result somewhere in the class's clone() chain.
R2/R3 independence, shape, side, kind: the source of clone() of every concrete class is interpreted (E3) with the
   recursive clone() of the children summarised by the induction hypothesis; the result must be a fresh node of the
   same class, without parent, whose left/right children are the *clones* of the original's left/right children, with
   id and payload equal; nothing of the original is modified.
R4 clone_from_root: interpreted with the real clone() along the path root -> node and the summary off the path; the
   value returned must be the copy made of the receiver, at the same position in a complete copy; the receiver's
   tracking fields are reset.
"""
from __future__ import annotations

import ast
from typing import Dict, List, Set

from sa.absint import (ALL_KINDS, BIN, LEAF, UN, AbsRaise, Ident, Interp, Node, Num, _MISSING, explore)
from sa.heapterm import HeapView, SHORT
from sa.model import Program, unparse
from sa.report import AnalysisError, Check
from sa.summaries import Summaries, clone_copy_table
from .common import program

CLONE_QUALS = ("BinaryTreeNode.clone", "MathExpression.clone", "ConstantExpression.clone",
               "VariableExpression.clone", "UnaryExpression.clone", "BinaryExpression.clone")


def ctor_param_attrs(prog: Program, kind: str) -> Dict[str, str]:
    """attribute -> defining class, for `self.A = <param>` in the __init__ chain."""
    out: Dict[str, str] = {}
    for c in prog.mro(prog.cls(kind)):
        m = c.methods.get("__init__")
        if m is None:
            continue
        params = {a.arg for a in m.node.args.args[1:]} | {a.arg for a in m.node.args.kwonlyargs}
        for n in ast.walk(m.node):
            if isinstance(n, ast.Assign) and len(n.targets) == 1 and isinstance(n.targets[0], ast.Attribute) \
                    and isinstance(n.targets[0].value, ast.Name) and n.targets[0].value.id == "self":
                used = {x.id for x in ast.walk(n.value) if isinstance(x, ast.Name)}
                if used & params:
                    out.setdefault(n.targets[0].attr, c.name)
    return out


def _reflective_clone(prog: Program, kind: str) -> bool:
    for c in prog.mro(prog.cls(kind)):
        m = c.methods.get("clone")
        if m is None:
            continue
        for n in ast.walk(m.node):
            if isinstance(n, ast.Call):
                fn = n.func
                name = fn.id if isinstance(fn, ast.Name) else (fn.attr if isinstance(fn, ast.Attribute) else "")
                if name in ("setattr", "vars", "copy", "deepcopy", "update", "__setattr__"):
                    return True
            if isinstance(n, ast.Attribute) and n.attr == "__dict__":
                return True
    return False


def attrs_read_elsewhere(prog: Program) -> Set[str]:
    out: Set[str] = set()
    for f in prog.all_functions():
        if f.name in ("__init__",):
            continue
        for n in ast.walk(f.node):
            if isinstance(n, ast.Attribute) and isinstance(n.ctx, ast.Load):
                out.add(n.attr)
    return out


def run_r1(chk: Check, prog: Program) -> None:
    chk.rule("C13.R1", "constructor-parameter attributes that are read elsewhere are copied by the clone() chain",
             minimum=12)
    table = clone_copy_table(prog)
    read = attrs_read_elsewhere(prog)
    for k in sorted(prog.concrete_kinds()):
        attrs = ctor_param_attrs(prog, k)
        for a, owner in sorted(attrs.items()):
            if a in ("left", "right", "parent"):
                continue  # link fields: R2/R3
            key = f"C13.R1:{owner}.{a}"
            construct = f"{k}: attribute {a} (set from a constructor parameter in {owner}.__init__)"
            if a not in read:
                chk.info("C13.R1", key, construct, "never read outside __init__: not observable")
                continue
            if a in table.get(k, set()):
                chk.ok("C13.R1", key, construct, where=f"{prog.cls(k).module.relpath}:{k}.clone")
            elif _reflective_clone(prog, k):
                # the chain copies attributes through setattr / vars / copy: which ones is a question about values, decided
                # by the interpreted clone() of R2, not by this table
                chk.ok("C13.R1", key, construct, "the clone() chain copies attributes reflectively (vars / setattr): whether this "
                       "attribute arrives is decided by the interpreted clone of C13.R2, which compares the payloads",
                       where=f"{prog.cls(k).module.relpath}:{k}.clone")
            else:
                chk.fail("C13.R1", key, construct,
                         f"no clone() in the MRO of {k} assigns result.{a}: the clone gets the constructor default",
                         witness={"example": f"{k}(..., {a}=<non-default>).clone().{a} is the default"},
                         where=f"{prog.cls(owner).module.relpath}:{owner}")


def run_r2(chk: Check, prog: Program, S: Summaries) -> None:
    chk.rule("C13.R2", "clone() of every concrete class: fresh same-class node, children are clones of the children on the "
             "same sides, id/payload equal, original untouched", minimum=12)
    for k in sorted(prog.concrete_kinds()):
        m = prog.find_method(k, "clone")
        if m is None:
            raise AnalysisError(f"{k}.clone vanished")

        def body(it: Interp, k=k, m=m):
            node = it.new_summary(frozenset([k]), "arg")
            it.arg = node
            hooks = S.hooks()
            base = hooks["BinaryTreeNode.clone"]

            def h(it2, info, args, kwargs):
                if isinstance(args[0], Node) and args[0].cid == node.cid:
                    return NotImplemented
                return base(it2, info, args, kwargs)
            h.total = False
            for q in CLONE_QUALS:
                it.hooks[q] = h
            it.events.append(("phase", "clone"))
            return it.call_function(m, [node], {})

        sides = [False, True] if prog.is_subclass(k, "UnaryExpression") else [False]
        paths = []
        for col in sides:
            for p in explore(prog, body, {"max_updepth": 1, "child_on_left": col}):
                p.col = col
                paths.append(p)
        for p in paths:
            it = p.interp
            label = f"{k}.clone() [operand on the {'left' if p.col else 'right'}]: {p.cond}"
            key = f"C13.R2:{k}"
            where = m.where
            if p.outcome != "return":
                chk.fail("C13.R2", key + ":raise", label, f"clone raises: {p.exc or p.note}", where=where)
                continue
            probs = _judge_clone(it, it.arg.cid, p.value)
            chk.verdict(not probs, "C13.R2", key, label, "; ".join(probs), witness={"problems": probs}, where=where)


def _judge_clone(it: Interp, orig: int, res) -> List[str]:
    probs: List[str] = []
    if not isinstance(res, Node):
        return [f"clone returns {res!r}"]
    if res.cid == orig:
        return ["clone returns the original node"]
    rc, oc = it.cells[res.cid], it.cells[orig]
    if not rc.fresh:
        probs.append("result is not a newly constructed node")
    if it.kinds_of(rc) != it.kinds_of(oc):
        probs.append(f"class of the clone {sorted(it.kinds_of(rc))} differs from {sorted(it.kinds_of(oc))}")
    if rc.cur.get("parent", None) is not None:
        probs.append("clone of a subtree root has a parent")
    for s in ("left", "right"):
        ov = oc.entry.get(s, _MISSING)
        rv = rc.cur.get(s, _MISSING)
        if ov is _MISSING:
            ov = None if it.kinds_of(oc) <= LEAF else ov
        if isinstance(ov, Node):
            if not isinstance(rv, Node):
                probs.append(f"{s} child is dropped")
                continue
            if rv.cid == ov.cid:
                probs.append(f"{s} child of the clone is the original's own child (shared node object)")
                continue
            mc = it.cells[rv.cid]
            if mc.mirror is None or mc.mirror[1] != ov.cid:
                probs.append(f"{s} child of the clone is not the clone of the original's {s} child")
            pv = mc.cur.get("parent", _MISSING)
            if not (isinstance(pv, Node) and pv.cid == res.cid):
                probs.append(f"{s} child of the clone does not point back to the clone")
        elif ov is None and isinstance(rv, Node):
            probs.append(f"clone has a {s} child the original does not have")
    for f in ("id", "value", "identifier", "child_on_left"):
        if f in oc.entry:
            ov, rv = oc.entry[f], rc.cur.get(f, _MISSING)
            same = (rv is ov) or (isinstance(ov, Num) and isinstance(rv, Num) and ov.term == rv.term) or \
                   (isinstance(ov, Ident) and isinstance(rv, Ident) and ov.name == rv.name) or \
                   (not isinstance(ov, (Num, Ident)) and ov == rv)
            if not same and f != "child_on_left":
                probs.append(f"{f} of the clone is {rv!r}, original has {ov!r}")
    from sa.absint import Lst as _Lst, Dct as _Dct, Rec as _Rec
    for f, rv in rc.cur.items():
        if isinstance(rv, (_Lst, _Dct, _Rec)):
            for of, ov in list(oc.cur.items()) + list(oc.entry.items()):
                if ov is rv:
                    probs.append(f"the clone's .{f} is the very same mutable object as the original's .{of}: changing one "
                                 f"tree afterwards changes the other")
                    break
    for e in it.events:
        if e[0] == "store" and e[1] == orig and e[2] in ("left", "right", "parent", "value", "identifier", "id"):
            if e[3] is _MISSING or e[3] != e[4]:
                probs.append(f"clone() stores to the original's .{e[2]}")
    return probs


def _judge_cfr(it: Interp, arg: int, p) -> List[str]:
    """clone_from_root's answer: the returned node's ancestor chain mirrors the receiver's chain kind by kind and side by
    side in freshly built nodes, nothing is stored to the original, no tracked clone is left behind."""
    probs: List[str] = []
    res = p.value
    if not isinstance(res, Node):
        probs.append(f"returns {res!r}")
    else:
        # walk up in lock step: clone chain must mirror the original chain (same kinds, same sides, fresh nodes)
        o, c = arg, res.cid
        steps = 0
        while True:
            oc, cc = it.cells[o], it.cells[c]
            if c == o or not (cc.fresh or cc.mirror is not None):
                probs.append("a node of the returned tree is a node of the original tree")
                break
            if it.kinds_of(cc) != it.kinds_of(oc):
                probs.append(f"level {steps}: clone is a {sorted(map(SHORT, it.kinds_of(cc)))}, original a "
                             f"{sorted(map(SHORT, it.kinds_of(oc)))}: not the copy of the receiver")
                break
            for f in ("value", "identifier"):
                if f in oc.entry and cc.cur.get(f, oc.entry[f]) is not oc.entry[f]:
                    ov, cv = oc.entry[f], cc.cur.get(f)
                    if not (isinstance(ov, Num) and isinstance(cv, Num) and ov.term == cv.term):
                        probs.append(f"level {steps}: payload {f} differs")
            op = oc.entry.get("parent", _MISSING)
            cp = cc.cur.get("parent", _MISSING)
            if not isinstance(op, Node):
                if isinstance(cp, Node):
                    probs.append("copy of the root has a parent")
                break
            if not isinstance(cp, Node):
                probs.append(f"level {steps}: returned node is not embedded in a copy of the whole tree")
                break
            oside = "left" if isinstance(it.cells[op.cid].entry.get("left"), Node) and it.cells[op.cid].entry["left"].cid == o else "right"
            cv = it.cells[cp.cid].cur.get(oside, _MISSING)
            if not (isinstance(cv, Node) and cv.cid == c):
                probs.append(f"level {steps}: copy is not the {oside} child of its parent (position differs)")
                break
            o, c = op.cid, cp.cid
            steps += 1
            if steps > 8:
                break
    ac = it.cells[arg]
    for f, want in (("cloned_node", None), ):
        v = ac.cur.get(f, _MISSING)
        if v is not _MISSING and v is not None:
            probs.append(f"receiver keeps {f} = {v!r} after the call (stale state for the next call)")
    for e in it.events:
        if e[0] == "store" and not (it.cells[e[1]].fresh or it.cells[e[1]].mirror is not None) \
                and e[2] in ("left", "right", "parent", "value", "identifier", "id"):
            if e[3] is _MISSING or e[3] != e[4]:
                probs.append(f"stores to .{e[2]} of the original tree")
                break
    return probs


def run_r4(chk: Check, prog: Program, S: Summaries) -> None:
    chk.rule("C13.R4", "clone_from_root() returns the copy of the receiver at the same position of a complete copy and "
             "resets its tracking state", minimum=20)
    m = prog.func("expressions", "MathExpression.clone_from_root")

    def body(it: Interp):
        node = it.new_summary(ALL_KINDS, "arg")
        it.arg = node
        hooks = S.hooks()
        base = hooks["BinaryTreeNode.clone"]
        it.real_clones = {}

        def on_path(it2, cid: int) -> bool:
            x = node.cid
            seen = set()
            while x not in seen:
                if x == cid:
                    return True
                seen.add(x)
                pv = it2.cells[x].cur.get("parent", it2.cells[x].entry.get("parent", _MISSING))
                if not isinstance(pv, Node):
                    return False
                x = pv.cid
            return False

        class H:
            total = True  # handles every receiver: real source (properly dispatched) on the path, summary off it

            def __call__(self, it2, info, args, kwargs):
                if isinstance(args[0], Node) and on_path(it2, args[0].cid):
                    cid = args[0].cid
                    if cid in it2.clone_of_path:
                        return NotImplemented  # super().clone() chain of a receiver already being cloned for real
                    real = it2.dispatch_method(it2.cells[cid], "clone")
                    if real is None:
                        raise AbsRaise("AttributeError", it2.site, "no clone method")
                    it2.clone_of_path[cid] = None
                    try:
                        r = it2.call_function(real, args, kwargs, nohook=True)
                    finally:
                        del it2.clone_of_path[cid]
                    return r
                return base(it2, info, args, kwargs)
        hh = H()
        it.clone_of_path = {}
        for q in CLONE_QUALS:
            it.hooks[q] = hh
        it.hooks.pop("MathExpression.clone_from_root", None)
        return it.call_function(m, [node], {})

    cfg = {"max_updepth": 2, "max_downdepth": 1, "hooks": S.hooks(), "budget_soft": True, "time_budget": 45}

    def sink(p):
        it = p.interp
        if not hasattr(it, "arg"):
            chk.undecided("C13.R4", "C13.R4:MathExpression.clone_from_root:budget", "exploration budget", p.note, m.where)
            return
        hv = HeapView(it, S.optable)
        arg = it.arg.cid
        label = f"clone_from_root on {hv.shape(hv.top(arg, 'entry'), 'entry')} :: {p.cond[-160:]}"
        key = "C13.R4:MathExpression.clone_from_root"
        if p.outcome == "bound":
            chk.undecided("C13.R4", key + ":bound", label, p.note, m.where)
            return
        if p.outcome == "raise":
            chk.fail("C13.R4", key + ":raise", label, f"raises {p.exc}", witness={"path": p.cond[:400]}, where=m.where)
            return
        probs = _judge_cfr(it, arg, p)
        chk.verdict(not probs, "C13.R4", key, label, "; ".join(probs), witness={"path": p.cond[:400], "problems": probs},
                    where=m.where)

    explore(prog, body, cfg, max_paths=12000, sink=sink)


def _small_trees(depth: int):
    """Every tree of at most `depth` levels below the root over a reduced kind universe: leaves Constant/Variable, unary
    Negate, binary Add/Multiply.  Two binary kinds and two leaf kinds are what it takes to have both equal and different
    kind chains among cousins."""
    if depth == 0:
        return [("const", "k"), ("var", "x")]
    sub = _small_trees(depth - 1)
    out = [("const", "k"), ("var", "x")]
    out += [("Negate", t) for t in sub]
    for k in ("Add", "Multiply"):
        out += [(k, a, b) for a in sub for b in sub]
    return out


def _positions(spec, path=()):
    yield path
    if spec[0] in ("const", "var"):
        return
    for i, ch in enumerate(spec[1:]):
        if isinstance(ch, tuple):
            yield from _positions(ch, path + (i,))


def _spec_str(spec) -> str:
    if spec[0] == "const":
        return "k"
    if spec[0] == "var":
        return "x"
    if len(spec) == 2:
        return f"-({_spec_str(spec[1])})"
    return f"({_spec_str(spec[1])} {'+' if spec[0] == 'Add' else '*'} {_spec_str(spec[2])})"


def run_r5(chk: Check, prog: Program, S: Summaries) -> None:
    """clone_from_root with the real clone() on every node - no induction hypothesis, so side effects of cloning the
    subtrees beside the path (tracking state kept anywhere, look-ups by a key that is not unique) are interpreted too."""
    from .c08 import Pat
    chk.rule("C13.R5", "clone_from_root() on every node of every small tree, real clone() everywhere: the copy of that very "
             "node, at the same position - also when the same tree object was asked for another node before", minimum=200)
    m = prog.func("expressions", "MathExpression.clone_from_root")
    depth = 2 if chk.tier == "quick" else 3
    trees = _small_trees(2)
    if chk.tier != "quick":
        # depth 3 only along products/sums of depth-2 subtrees that have an inner node on both sides (cousins of cousins)
        d1 = [t for t in _small_trees(1) if t[0] not in ("const", "var")]
        trees = trees + [(k, (k2, a, b), (k2, c, d)) for k in ("Add",) for k2 in ("Multiply",)
                         for a in d1 for b in d1[:3] for c in d1[:3] for d in d1[:2]]
    hooks = {k: v for k, v in S.hooks().items() if k not in CLONE_QUALS and "clone" not in k}
    n = 0
    for spec in trees:
        allpos = list(_positions(spec))
        for pos, earlier in [(q, None) for q in allpos] + \
                [(q, e) for q in allpos for e in (allpos[0], allpos[-1]) if e != q and len(allpos) <= 7]:
            def body(it: Interp, spec=spec, pos=pos, earlier=earlier):
                pat = Pat(it)
                root = pat.build(spec)
                it._set_entry(it.cells[root.cid], "parent", None)

                def at(path):
                    cur = root
                    for i in path:
                        cell = it.cells[cur.cid]
                        if cell.entry.get("left") is None:
                            cur = cell.entry["right"]
                        else:
                            cur = cell.entry["left"] if i == 0 else cell.entry["right"]
                    return cur
                if earlier is not None:
                    # the same tree object was asked before, for another node: nothing of that call may show in this one
                    it.call_function(m, [at(earlier)], {})
                    it.events.append(("phase", "second-request"))
                cur = at(pos)
                it.arg = cur
                return it.call_function(m, [cur], {})
            for p in explore(prog, body, {"max_updepth": 0, "hooks": hooks, "max_inline": 80, "max_steps": 60000}, max_paths=64):
                n += 1
                it = p.interp
                label = f"clone_from_root on the node at {'/'.join('LR'[i] for i in pos) or 'root'} of {_spec_str(spec)}" + \
                        (f" after an earlier request for the node at {'/'.join('LR'[i] for i in earlier) or 'root'}" if earlier is not None else "") + \
                        f" :: {p.cond[-120:]}"
                key = "C13.R5:MathExpression.clone_from_root" + (":second-request" if earlier is not None else "")
                if p.outcome == "bound":
                    chk.undecided("C13.R5", key + ":bound", label, p.note, m.where)
                    continue
                if p.outcome == "raise":
                    chk.fail("C13.R5", key + ":raise", label, f"raises {p.exc}", witness={"tree": _spec_str(spec), "position": list(pos)},
                             where=m.where)
                    continue
                probs = _judge_cfr(it, it.arg.cid, p)
                chk.verdict(not probs, "C13.R5", key, label, "; ".join(probs),
                            witness={"tree": _spec_str(spec), "position": "/".join("LR"[i] for i in pos) or "root", "problems": probs},
                            where=m.where)
    chk.analysed["clone_from_root_small_tree_runs"] = n


class _OnlyRule:
    """Forwards the obligations of one rule id and drops the rest (a shared clause that reports several rules)."""

    def __init__(self, chk, keep: str):
        self._chk, self._keep = chk, keep

    def __getattr__(self, name):
        return getattr(self._chk, name)

    def _fwd(self, name, rule, *a, **k):
        if self._chk._r(rule) == self._keep:
            getattr(self._chk, name)(rule, *a, **k)

    def rule(self, rid, text, minimum=1):
        if self._chk._r(rid) == self._keep:
            self._chk.rule(rid, "rewritten trees are structurally sound - the precondition of cloning them (clause C07.R1)", minimum)

    def ok(self, rule, *a, **k):
        self._fwd("ok", rule, *a, **k)

    def fail(self, rule, *a, **k):
        self._fwd("fail", rule, *a, **k)

    def undecided(self, rule, *a, **k):
        self._fwd("undecided", rule, *a, **k)

    def info(self, rule, *a, **k):
        self._fwd("info", rule, *a, **k)

    def verdict(self, cond, rule, *a, **k):
        if self._chk._r(rule) == self._keep:
            self._chk.verdict(cond, rule, *a, **k)


def run(chk: Check) -> None:
    prog = program(chk)
    S = Summaries(prog)
    chk.technique = "attribute-completeness table over the clone() MRO chains; abstract interpretation of clone()/" \
                    "clone_from_root() with the induction hypothesis for recursive calls"
    chk.explanation = (
        "Decides: (R1) for each of the 12 concrete classes every attribute that the __init__ chain sets from a "
        "constructor parameter and that is read anywhere else is assigned on the result in the clone() chain; "
        "(R2/R3) the source of clone() of each class, interpreted with recursive clones of the children summarised "
        "(induction hypothesis), builds a fresh node of the same class without parent whose left/right children are "
        "the clones of the original's left/right children pointing back at it, copies id and payload, and stores "
        "nothing to the original; (R4) clone_from_root(), interpreted with the real clone() along the path from the "
        "root to the receiver (chains of up to 2 ancestors, every kind and side) and the summary elsewhere, returns a "
        "node whose ancestor chain mirrors the receiver's chain kind by kind and side by side in freshly built nodes, "
        "and leaves no tracked clone behind; (R5) clone_from_root() with the real clone() on every node (no induction "
        "hypothesis) for every node of every tree of depth <= 2 over {Constant, Variable, Negate, Add, Multiply} returns "
        "the copy of that very node at the same position; (R6) every tree a rewrite produces has consistent links (the "
        "clause C07.R1), so trees 'produced by rewrites' satisfy what cloning presupposes. Not decided: clone_from_root(other_node); equality of printed/evaluated "
        "results (follows from shape + payload equality by C04/C05 clauses).")
    chk.assumptions = ["W for the input tree; unary operand side is the one recorded in child_on_left",
                       "induction hypothesis: clone() of a proper subtree is a correct deep copy"]
    run_r1(chk, prog)
    run_r2(chk, prog, S)
    run_r4(chk, prog, S)
    run_r5(chk, prog, S)
    # trees 'produced by rewrites' are in the quantifier: cloning (and clone_from_root's walk to the root) presupposes
    # consistent links, so the link audit of every rewritten tree (the clause C07.R1) runs under this property too
    from .common import rule_records
    from .c07 import run_cases as link_audit
    recs = rule_records(chk)
    proxy = chk.renamed({"C07.R1": "C13.R6", "C07.R3": "C13.X", "C07.R4": "C13.X", "C07.R6": "C13.X", "C07.R7": "C13.X"})
    link_audit(_OnlyRule(proxy, "C13.R6"), recs, pid="C07")
    chk.exhaustive = True
    chk.max_undecided = 0
