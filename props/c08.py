"""C08 - each rule performs its documented transformation on its documented forms.

Schemas are transcribed from the rule docstrings / *.md files and the property statement (props/c08_schemas.py keeps
one line of provenance each).  For every schema the canonical pattern is built as a pre-existing heap shape whose
metavariables are summary cells (arbitrary subtrees), constants with symbolic payloads (sign / zero-ness forked) and
variables; the context above the pattern is unconstrained.  E3 runs can_apply_to / apply_to from source:
 R1 acceptance: every path over the metavariables' classes answers 'applicable'
 R2 shape: the result tree equals the documented right-hand side modulo associativity/commutativity of + and *
    (no arithmetic normalisation), or matches the documented shape pattern where a common factor is chosen
 R3 documented non-applicability: no path answers 'applicable'
"""
from __future__ import annotations

import re
from typing import Any, Callable, Dict, List, Optional, Tuple

from sa import algebra as A
from sa.absint import (ALL_KINDS, NON_ROOT_KINDS, AbsRaise, Ident, Interp, Node, Num, Rec, _MISSING, explore)
from sa.heapterm import HeapView, kind_assignments
from sa.model import Program
from sa.report import AnalysisError, Check
from sa.summaries import Summaries
from .common import program

ANY = "any"


class Pat:
    """Builds pre-existing (entry-state) heap shapes."""

    def __init__(self, it: Interp, concrete_idents: bool = False):
        self.it = it
        self.names: Dict[str, int] = {}
        self.concrete_idents = concrete_idents

    def build(self, spec, parent: Optional[int] = None) -> Node:
        it = self.it
        kind = spec[0]
        if kind == "any":
            kinds = NON_ROOT_KINDS - frozenset(x + "Expression" for x in spec[2:])
            c = it.new_cell(kinds, False, "child")
            self.names[spec[1]] = c.cid
        elif kind == "const":
            c = it.new_cell(frozenset(["ConstantExpression"]), False, "child")
            it._set_entry(c, "value", Num(("sym", f"c{c.cid}")))
            it._set_entry(c, "left", None)
            it._set_entry(c, "right", None)
            self.names[spec[1]] = c.cid
            for cons in spec[2:]:
                if cons == "nonzero":
                    it.assume_sign(("sym", f"c{c.cid}"), frozenset(["neg", "pos"]))
                elif cons == "neg":
                    it.assume_sign(("sym", f"c{c.cid}"), frozenset(["neg"]))
                elif cons == "nonneg":
                    it.assume_sign(("sym", f"c{c.cid}"), frozenset(["zero", "pos"]))
        elif kind == "var":
            c = it.new_cell(frozenset(["VariableExpression"]), False, "child")
            it._set_entry(c, "identifier", spec[1] if self.concrete_idents else Ident(spec[1]))
            it._set_entry(c, "left", None)
            it._set_entry(c, "right", None)
            self.names.setdefault("var:" + spec[1], c.cid)
        else:
            cls = kind + "Expression"
            c = it.new_cell(frozenset([cls]), False, "child")
            if len(spec) > 3 and spec[3]:
                self.names[spec[3]] = c.cid
            if len(spec) == 2 or (len(spec) > 2 and spec[2] is None):
                ch = self.build(spec[1], c.cid)
                it._set_entry(c, "left", None)
                it._set_entry(c, "right", ch)
                it._set_entry(c, "child_on_left", False)
            else:
                l = self.build(spec[1], c.cid)
                r = self.build(spec[2], c.cid)
                it._set_entry(c, "left", l)
                it._set_entry(c, "right", r)
        if parent is not None:
            it._set_entry(c, "parent", Node(parent))
        return Node(c.cid)

    def atom(self, name: str):
        return ("atom", f"T{self.names[name]}")

    def const(self, name: str):
        return ("sym", f"c{self.names[name]}")


class _PatView:
    """Schema metavariables as terms of the *entry* state under one kind assignment (a sub-expression that the rule
    looked into is a structured term, not an opaque atom)."""

    def __init__(self, pat: "Pat", hv: HeapView):
        self.pat, self.hv = pat, hv

    def atom(self, name: str):
        return self.hv.term(self.pat.names[name], "entry")

    def const(self, name: str):
        return self.hv.term(self.pat.names[name], "entry")


def ac_canon(t):
    k = t[0]
    if k in ("add", "mul"):
        items = []

        def flat(x):
            if x[0] == k:
                flat(x[1])
                flat(x[2])
            else:
                items.append(ac_canon(x))
        flat(t)
        return (k,) + tuple(sorted(items, key=repr))
    if k in ("lit", "sym", "atom"):
        return t
    if k == "fn":
        return ("fn", t[1], ac_canon(t[2]))
    return (k,) + tuple(ac_canon(x) for x in t[1:])


def V(n):
    return ("var", n)


def C(n, *cons):
    return ("const", n) + cons


def Any(n):
    return ("any", n)


def T(c, x, n=None):
    """natural-order term  c * x^n"""
    core = ("Power", V(x), C(n)) if n else V(x)
    return ("Multiply", C(c, "nonzero"), core)


def schemas() -> List[dict]:
    S: List[dict] = []

    def add(name, rule, pattern, target="", opts=None, expect=None, shape=None, applies=True, src="", **kw):
        d = dict(name=name, rule=rule, pattern=pattern, target=target, opts=opts or {}, expect=expect, shape=shape,
                 applies=applies, src=src)
        d.update(kw)
        S.append(d)
    a, b, c = Any("a"), Any("b"), Any("c")
    # commutative
    for opts in ({"preferred": True}, {"preferred": False}):
        add("a + b -> b + a", "CommutativeSwapRule", ("Add", a, b), opts=opts, swap="add",
            src="commutative_swap.md 'a + b = b + a'")
    add("a * b -> b * a", "CommutativeSwapRule", ("Multiply", a, b), opts={"preferred": True}, swap="mul",
        src="commutative_swap.md 'a * b = b * a'")
    add("a / b does not commute", "CommutativeSwapRule", ("Divide", a, b), applies=False,
        src="commutative_swap.md 'only addition or multiplication nodes'")
    add("a - b does not commute", "CommutativeSwapRule", ("Subtract", a, b), applies=False,
        src="commutative_swap.md 'only addition or multiplication nodes'")
    # associative
    add("(a + b) + c -> a + (b + c)", "AssociativeSwapRule", ("Add", ("Add", a, b, "inner"), c), target="inner",
        expect=lambda p: ("add!", p.atom("a"), ("add!", p.atom("b"), p.atom("c"))), src="AssociativeSwapRule docstring")
    add("(a * b) * c -> a * (b * c)", "AssociativeSwapRule", ("Multiply", ("Multiply", a, b, "inner"), c), target="inner",
        expect=lambda p: ("mul!", p.atom("a"), ("mul!", p.atom("b"), p.atom("c"))), src="AssociativeSwapRule docstring")
    add("a + (b + c) -> (a + b) + c", "AssociativeSwapRule", ("Add", a, ("Add", b, c, "inner")), target="inner",
        expect=lambda p: ("add!", ("add!", p.atom("a"), p.atom("b")), p.atom("c")), src="associative_swap.md")
    add("(a + b) * c is not regrouped", "AssociativeSwapRule", ("Multiply", ("Add", a, b, "inner"), c), target="inner",
        applies=False, src="associative_swap.md: same operator only")
    # constants
    for op in ("Add", "Subtract", "Multiply", "Divide"):
        add(f"c1 {op} c2 -> constant", "ConstantsSimplifyRule", (op, C("c1"), C("c2")),
            shape=r"^Constant$", expect=lambda p, op=op: ({"Add": "add", "Subtract": "sub", "Multiply": "mul", "Divide": "div"}[op],
                                                        p.const("c1"), p.const("c2")),
            src="constants_simplify.md 'Two Constants'")
    # distribute
    # the factor is not itself a sum: for (p + q)(b + c) either operand may be read as the documented factor
    a_ns = ("any", "a", "Add")
    add("a(b + c) -> ab + ac", "DistributiveMultiplyRule", ("Multiply", a_ns, ("Add", b, c)),
        expect=lambda p: ("add", ("mul", p.atom("a"), p.atom("b")), ("mul", p.atom("a"), p.atom("c"))),
        src="DistributiveMultiplyRule docstring")
    add("(b + c)a -> ab + ac", "DistributiveMultiplyRule", ("Multiply", ("Add", b, c), a_ns),
        expect=lambda p: ("add", ("mul", p.atom("a"), p.atom("b")), ("mul", p.atom("a"), p.atom("c"))),
        src="distributive_multiply_across.md")
    # factor out
    TERM = r"(Variable|Power\(Variable, Constant\)|Multiply\(Constant, Variable\)|Multiply\(Constant, Power\(Variable, Constant\)\))"
    FACT = rf"^(Multiply\(Add\(Constant, Constant\), {TERM}\)|Multiply\({TERM}, Add\(Constant, Constant\)\))$"
    add("a x^n + b x^n -> (a + b) x^n", "DistributiveFactorOutRule", ("Add", T("a", "x", "n"), ("Multiply", C("b", "nonzero"), ("Power", V("x"), C("m")))),
        opts={"constants": False}, shape=FACT, same_exponent=("n", "m"), src="distributive_factor_out.md 'ab + ac = a(b + c)'")
    add("a x + b x -> (a + b) x", "DistributiveFactorOutRule", ("Add", T("a", "x"), T("b", "x")), opts={"constants": False},
        shape=FACT, src="distributive_factor_out.md '9y + 9y'")
    add("x + x -> (1 + 1) x", "DistributiveFactorOutRule", ("Add", V("x"), V("x")), opts={"constants": False}, shape=FACT,
        src="distributive_factor_out.test.json")
    add("a x^n + b x is not factored (n != 1: unlike exponents)", "DistributiveFactorOutRule",
        ("Add", T("a", "x", "n"), T("b", "x")), opts={"constants": False}, applies=False, exponent_not_one="n",
        unless_common_number=True,
        src="C08 statement 'factoring ax^n + bx^n'; distributive_factor_out.md 'combining like terms'")
    add("a x + b y is not factored (unlike variables)", "DistributiveFactorOutRule",
        ("Add", T("a", "x"), T("b", "y")), opts={"constants": False}, applies=False, distinct=("x", "y"),
        unless_common_number=True,
        src="C08 statement 'unlike variables'")
    add("c1 + c2 is not factored unless enabled", "DistributiveFactorOutRule", ("Add", C("c1"), C("c2")),
        opts={"constants": False}, applies=False, src="DistributiveFactorOutRule.__init__ comment")
    # multiplicative inverse
    add("a / b -> a * (1 / b)", "MultiplicativeInverseRule", ("Divide", a, Any("b")),
        shape=r"^Multiply\(.*, Divide\(Constant, .*\)\)$", src="MultiplicativeInverseRule docstring",
        expect=lambda p: ("mul", p.atom("a"), ("div", A.lit(1), p.atom("b"))))
    # restate subtraction
    add("a - b -> a + -b (or an equivalent plus-negative form)", "RestateSubtractionRule", ("Subtract", a, b),
        shape=r"^Add\(", src="restate_subtraction.md",
        expect=lambda p: ("add", p.atom("a"), ("neg", p.atom("b"))))
    add("a + -c -> a - c", "RestateSubtractionRule", ("Add", a, C("c", "neg")), shape=r"^Subtract\(.*, Constant\)$",
        src="RestateSubtractionRule.get_type comments '+ -2'")
    add("a + -c x -> a - c x", "RestateSubtractionRule", ("Add", a, ("Multiply", C("c", "neg"), V("x"))),
        shape=r"^Subtract\(.*, Multiply\(Constant, Variable\)\)$", src="get_type comments '+ -2x'")
    add("a + -c x^n -> a - c x^n", "RestateSubtractionRule", ("Add", a, ("Multiply", C("c", "neg"), ("Power", V("x"), C("n")))),
        shape=r"^Subtract\(.*, Multiply\(Constant, Power\(Variable, Constant\)\)\)$", src="get_type comments '+ -2x^3'")
    add("a + c (c >= 0) is left alone", "RestateSubtractionRule", ("Add", a, C("c", "nonneg")), applies=False,
        src="get_type: returns None for non-negative constants")
    # variable multiply
    add("x^a * x^b -> x^(a + b)", "VariableMultiplyRule", ("Multiply", ("Power", V("x"), C("a")), ("Power", V("x"), C("b"))),
        shape=r"^Power\(Variable, Add\(Constant, Constant\)\)$", src="variable_multiply.md 'Explicit powers'",
        expect=lambda p: ("pow", ("atom", "var:x"), ("add", p.const("a"), p.const("b"))))
    add("x * x^b -> x^(1 + b)", "VariableMultiplyRule", ("Multiply", V("x"), ("Power", V("x"), C("b"))),
        shape=r"^Power\(Variable, Add\(Constant, Constant\)\)$", src="variable_multiply.md 'Implicit powers'",
        expect=lambda p: ("pow", ("atom", "var:x"), ("add", A.lit(1), p.const("b"))))
    add("c x^a * d x^b -> (c * d) x^(a + b)", "VariableMultiplyRule", ("Multiply", T("c", "x", "a"), T("d", "x", "b")),
        expect=lambda p: ("mul", ("mul", p.const("c"), p.const("d")),
                          ("pow", ("atom", "var:x"), ("add", p.const("a"), p.const("b")))),
        src="variable_multiply.md '42x^2 * x^3'")
    add("x^a * y^b is not combined", "VariableMultiplyRule", ("Multiply", ("Power", V("x"), C("a")), ("Power", V("y"), C("b"))),
        applies=False, distinct=("x", "y"), src="variable_multiply.md 'x * y cannot be combined'")
    # balanced move
    add("t + c = r -> t = r - c", "BalancedMoveRule", ("Equal", ("Add", Any("t"), C("c")), Any("r")), target="c",
        shape=r"^Equal\(.*, Subtract\(.*, Constant\)\)$", src="BalancedMoveRule docstring 'a + 2 = 3'",
        expect=lambda p: ("eq", p.atom("t"), ("sub", p.atom("r"), p.const("c"))))
    add("r = t + c -> r - c = t", "BalancedMoveRule", ("Equal", Any("r"), ("Add", Any("t"), C("c"))), target="c",
        shape=r"^Equal\(Subtract\(.*, Constant\), .*\)$", src="balanced_move.test.json",
        expect=lambda p: ("eq", ("sub", p.atom("r"), p.const("c")), p.atom("t")))
    add("s + (t + c) = r -> s + t = r - c", "BalancedMoveRule", ("Equal", ("Add", Any("s"), ("Add", Any("t"), C("c"))), Any("r")),
        target="c", shape=r"^Equal\(Add\(.*\), Subtract\(.*, Constant\)\)$", src="balanced_move.test.json (addend of a side, any grouping)",
        expect=lambda p: ("eq", ("add", p.atom("s"), p.atom("t")), ("sub", p.atom("r"), p.const("c"))))
    add("(t + c) + s = r -> t + s = r - c", "BalancedMoveRule", ("Equal", ("Add", ("Add", Any("t"), C("c")), Any("s")), Any("r")),
        target="c", shape=r"^Equal\(Add\(.*\), Subtract\(.*, Constant\)\)$", src="balanced_move.test.json (addend of a side, any grouping)",
        expect=lambda p: ("eq", ("add", p.atom("t"), p.atom("s")), ("sub", p.atom("r"), p.const("c"))))
    add("c t = r -> c t / c = r / c", "BalancedMoveRule", ("Equal", ("Multiply", C("c", "nonzero"), V("t")), Any("r")), target="c",
        shape=r"^Equal\(Divide\(Multiply\(Constant, Variable\), Constant\), Divide\(.*, Constant\)\)$",
        src="BalancedMoveRule docstring '3a = 3'",
        expect=lambda p: ("eq", ("div", ("mul", p.const("c"), ("atom", "var:t")), p.const("c")), ("div", p.atom("r"), p.const("c"))))
    return S


def run_schema(chk: Check, prog: Program, S: Summaries, sc: dict) -> None:
    rname = sc["rule"]
    cinfo = prog.cls(rname)
    can_m = prog.find_method(rname, "can_apply_to")
    app_m = prog.find_method(rname, "apply_to")
    label0 = f"{rname}[{','.join(f'{k}={v}' for k, v in sc['opts'].items()) or '-'}] on schema '{sc['name']}'"
    where = f"{cinfo.module.relpath}:{rname}"

    def body(it: Interp):
        it.retained_mode += 1
        rule = it.instantiate(cinfo, [], dict(sc["opts"]))
        it.retained_mode -= 1
        p = Pat(it)
        root = p.build(sc["pattern"])
        it.pat = p
        it.root = root
        tgt = Node(p.names[sc["target"]]) if sc["target"] else root
        it.target = tgt
        if sc.get("distinct"):
            x, y = sc["distinct"]
            it.ident_diseq.add(frozenset([x, y]))
        if sc.get("exponent_not_one"):
            it.assume_sign(("sub", ("sym", f"c{p.names[sc['exponent_not_one']]}"), A.lit(1)), frozenset(["neg", "pos"]))
        if sc.get("same_exponent"):
            n, m = sc["same_exponent"]
            it.assume_sign(("sub", ("sym", f"c{p.names[n]}"), ("sym", f"c{p.names[m]}")), frozenset(["zero"]))
        can = it.call_function(can_m, [rule, tgt], {})
        if not it.truth(can, "can_apply_to"):
            return ("no", None)
        ch = it.call_function(app_m, [rule, tgt], {})
        return ("applied", ch)

    results = explore(prog, body, {"max_updepth": 3, "hooks": S.hooks()}, max_paths=20000)
    if not results:
        raise AnalysisError(f"schema {sc['name']}: no feasible path")
    for p in results:
        it = p.interp
        label = f"{label0} :: {p.cond[-160:] or 'single path'}"
        if p.outcome != "return":
            chk.fail("C08.R1", f"C08.R1:{rname}:{sc['name']}:raise", label, f"{p.outcome}: {p.exc or p.note}",
                     witness={"path": p.cond[-300:]}, where=where)
            continue
        tag, ch = p.value
        if not sc["applies"]:
            if sc.get("unless_common_number") and tag != "no" and re.search(r"g\d+==1=false", p.cond):
                # the coefficients share a numeric factor other than 1: pulling that number out is a documented use of the
                # rule ('which common numeric factor is pulled out' is left open), not a like-terms claim
                chk.info("C08.R3", f"C08.R3:{rname}:{sc['name']}:common-number", label, "common numeric factor pulled out")
                continue
            chk.verdict(tag == "no", "C08.R3", f"C08.R3:{rname}:{sc['name']}", label,
                        "the rule reports applicable on a form documented as not applicable" if tag != "no" else "",
                        witness={"path": p.cond[-300:], "source": sc["src"]}, where=where)
            continue
        if tag == "no":
            chk.fail("C08.R1", f"C08.R1:{rname}:{sc['name']}", label,
                     "the rule refuses an instance of its documented form",
                     witness={"path": p.cond[-300:], "facts": [f"{A.term_str(t)} in {sorted(al)}" for k, al in it.num_facts.items()
                                                              for t in [it.num_fact_terms.get(k)] if t],
                              "source": sc["src"]}, where=where)
            continue
        chk.ok("C08.R1", f"C08.R1:{rname}:{sc['name']}", label, where=where)
        res = ch.fields.get("result") if isinstance(ch, Rec) else None
        if not isinstance(res, Node):
            chk.fail("C08.R2", f"C08.R2:{rname}:{sc['name']}:no-result", label, f"no result node: {res!r}", where=where)
            continue
        # shape judgement
        for choice, val in kind_assignments(it, S.optable, lambda hv: _shape_and_term(it, hv, res.cid, sc) + (
                (sc["expect"](_PatView(it.pat, hv)),) if sc.get("expect") else (None,))):
            shape, term, want = val
            probs = []
            if sc.get("shape") and not re.search(sc["shape"], shape):
                probs.append(f"result shape {shape} does not match the documented form /{sc['shape']}/")
            if sc.get("swap"):
                before = _leaves(hv_term_entry(it, S, it.target.cid), sc["swap"])
                after = _leaves(term, sc["swap"])
                if sorted(map(repr, before)) != sorted(map(repr, after)):
                    probs.append(f"operands change: {before} -> {after}")
                elif before == after:
                    probs.append("the operands are in the same order as before: nothing was swapped")
            if sc.get("expect") and "nan" not in A.term_str(term):
                same = _same(it, _plain(want), term, bool(sc.get("shape")) and not _has_strict(want))
                if not same:
                    probs.append(f"result {A.term_str(term)} is not the documented {A.term_str(_plain(want))} "
                                 f"(modulo order/grouping of + and *)")
                elif _has_strict(want) and _plain(want) != term:
                    probs.append(f"result {A.term_str(term)} has the operands of the documented {A.term_str(_plain(want))} "
                                 f"but not in the documented order/grouping")
            chk.verdict(not probs, "C08.R2", f"C08.R2:{rname}:{sc['name']}", f"{label} -> {shape}", "; ".join(probs),
                        witness={"result": shape, "path": p.cond[-300:], "source": sc["src"]}, where=where)


def _same(it: Interp, want, term, field_laws: bool) -> bool:
    """Structural equality modulo order/grouping of + and *; with field_laws (the schema also pins the shape by a
    pattern) a documented variant of the same shape is accepted when its operands are the documented ones up to the
    field laws (a / -b -> a * (-1 / b))."""
    if want[0] == "eq" and term[0] == "eq":
        return _same(it, want[1], term[1], field_laws) and _same(it, want[2], term[2], field_laws)
    if ac_canon(want) == ac_canon(term):
        return True
    if field_laws and want[0] != "eq" and term[0] != "eq":
        try:
            return A.equal_nf(want, term, subst=dict(it.eq_subst))
        except Exception:
            return False
    return False


def _shape_and_term(it: Interp, hv: HeapView, res: int, sc: dict):
    # judge the region: for in-place rules the documented pattern root, else the result node
    from sa.rulecases import _region
    bt, at = _region(it, hv, it.target.cid, res)
    if sc["rule"] in ("AssociativeSwapRule",):
        at = hv.top(res, "cur") if False else at
    return hv.shape(at, "cur"), _strip_eq(hv.term(at, "cur"))


def _strip_eq(t):
    return t


def hv_term_entry(it: Interp, S: Summaries, cid: int):
    return HeapView(it, S.optable).term(cid, "entry")


def _leaves(t, op: str) -> list:
    if t[0] == op:
        return _leaves(t[1], op) + _leaves(t[2], op)
    return [t]


def _plain(t):
    if t[0] in ("add!", "mul!"):
        return (t[0][:-1], _plain(t[1]), _plain(t[2]))
    if t[0] in ("lit", "sym", "atom"):
        return t
    if t[0] == "fn":
        return ("fn", t[1], _plain(t[2]))
    return (t[0],) + tuple(_plain(x) for x in t[1:])


def _has_strict(t) -> bool:
    if t[0] in ("add!", "mul!"):
        return True
    if t[0] in ("lit", "sym", "atom"):
        return False
    return any(_has_strict(x) for x in t[1:] if isinstance(x, tuple))


def _strict(t):
    return _plain(t) if _has_strict(t) else None


def _strict_from_term(term, want):
    return term if _has_strict(want) else None


def run(chk: Check) -> None:
    prog = program(chk)
    S = Summaries(prog)
    chk.technique = "abstract interpretation of the rules on documented schema patterns with symbolic metavariables; " \
                    "AC-canonical / shape-pattern comparison of the result"
    chk.rule("C08.R1", "documented form is accepted on every path over the metavariables' classes", minimum=40)
    chk.rule("C08.R2", "result has the documented shape (modulo AC of + and *, common-factor choice)", minimum=40)
    chk.rule("C08.R3", "documented non-applicability", minimum=8)
    sch = schemas()
    chk.analysed["schemas"] = [f"{s['rule']}: {s['name']}  [{s['src']}]" for s in sch]
    chk.explanation = (
        f"Decides, for {len(sch)} schemas transcribed from the rule documentation (listed under coverage.analysed.schemas "
        "with their provenance): the canonical pattern - with sub-expressions as summary cells, coefficients/exponents as "
        "constants with symbolic payloads whose sign and zero-ness are forked, variables as identifier symbols, and an "
        "unconstrained context above - is accepted on every path and rewritten into the documented right-hand side, "
        "compared structurally modulo order and grouping of the operands of + and * (exactly in the documented order for "
        "the swap/regroup rules) or against the documented shape where a common factor is chosen; forms documented as not "
        "applicable are refused on every path. Assumes non-zero coefficients in the factoring / coefficient-division "
        "schemas. Not decided: forms the documentation does not describe; value preservation (C01/C02).")
    chk.assumptions = ["schema transcription (props/c08.py schemas(), provenance per schema)",
                       "non-zero coefficients for 'a x^n + b x^n' and 'c t = r'"]
    for sc in sch:
        run_schema(chk, prog, S, sc)
    # contracts of other parts of the library this check takes for granted (summaries, token model, reference grammar):
    # the clauses that check the source against them, replayed under this property (props/contracts.py)
    from .contracts import run_contracts
    run_contracts(chk, prog, ['clone', 'factor', 'evaluate'])
    chk.exhaustive = True
    chk.max_undecided = 0
