"""C03 - text is read according to the documented grammar and order of operations.

The parser is interpreted (E3) over symbolic token streams: each token's type is a finite-set symbol that the parser's
own tests split, so every path stands for all token sequences in the refined sets.  Each path is instantiated and
validated against a reference parser transcribed from the grammar in ExpressionParser's docstring (iteration = left
association; 'factorial of a literal' from the statement):
 R1 accepted sequences: value term of the parsed tree == value term of the reference derivation (E4)
 R2 acceptance: the parser accepts exactly the sequences the grammar derives
 R3 the parsed tree is structurally sound (no operand object used twice, links consistent)
 R4 ladder (AST): each binary level parses the operand after its operator with the next tighter production.
 R5 the reading of a text does not depend on earlier parses on the same parser (repeated-parse scenarios).
"""
from __future__ import annotations

import ast
from typing import Dict, List

from sa.model import Program, unparse
from sa.parsecases import RefParser, Reject, analyse_parser, terms_equal
from sa.report import Check, REPO
from .common import program

LADDER = [("parse_equal", "parse_add"), ("parse_add", "parse_mult"), ("parse_mult", "parse_exponent"),
          ("parse_exponent", "parse_unary")]


class RightAssocRef(RefParser):
    """The documented grammar with the multiplicative level right-recursive (what parse_mult does today)."""

    def mult(self):
        e = self.exp()
        if self.cur in ("Multiply", "Divide"):
            op = "mul" if self.cur == "Multiply" else "div"
            self.i += 1
            return (op, e, self.mult())
        return e


def abstract_pattern(tokens: List[str]) -> str:
    m = {"Plus": "+", "Minus": "-", "Multiply": "*", "Divide": "/", "Exponent": "^", "Factorial": "!", "OpenParen": "(",
         "CloseParen": ")", "Equal": "=", "Function": "f", "Constant": "c", "Variable": "v"}
    return " ".join(m[t] for t in tokens)


def run_records(chk: Check, recs: List[dict], pid: str = "C03") -> None:
    chk.rule(f"{pid}.R1", "parsed tree value == reference derivation value, per accepted token sequence", minimum=100)
    chk.rule(f"{pid}.R2", "parser accepts exactly what the documented grammar derives", minimum=1000)
    chk.rule(f"{pid}.R3", "parsed trees are structurally sound", minimum=100)
    where = "mathy_core/parser.py:ExpressionParser._parse"
    for r in recs:
        if r["outcome"] == "bound":
            chk.undecided(f"{pid}.R2", f"{pid}.R2:bound", f"tokens {r.get('type_sets')}", r.get("note", ""), where)
            continue
        toks = r["tokens"]
        surf = r["surface"]
        label = f"{surf!r} ({abstract_pattern(toks)})"
        accepted = r["outcome"] == "return"
        if r.get("malformed_number"):
            continue  # ValueError for a malformed literal is part of the contract, not of the grammar
        want = r["ref_status"] == "ok"
        if accepted != want:
            what = "accepts a string the grammar does not derive" if accepted else \
                f"rejects ({r.get('exc')}) a string the grammar derives"
            chk.fail(f"{pid}.R2", f"{pid}.R2:{'accepts' if accepted else 'rejects'}:{abstract_pattern(toks)}", label,
                     f"parser {what}; parsed as {r.get('term_str')}, reference {r.get('ref_term_str')}",
                     witness={"input": surf, "tokens": toks}, where=where)
        else:
            chk.ok(f"{pid}.R2", f"{pid}.R2", label, where=where)
        if not accepted:
            continue
        if r.get("links"):
            chk.fail(f"{pid}.R3", f"{pid}.R3:{r['links'][0]['what']}", label, f"parsed tree is unsound: {r['links'][0]}",
                     witness={"input": surf, "tree": r.get("shape")}, where=where)
        else:
            chk.ok(f"{pid}.R3", f"{pid}.R3", label, where=where)
        if not want:
            continue
        eq = r.get("value_equal")
        if eq is True:
            chk.ok(f"{pid}.R1", f"{pid}.R1", label, where=where)
        elif eq is False:
            # attribute to the right-recursive multiplicative level when that alone explains the difference
            from sa.parsecases import reference
            try:
                alt = RightAssocRef([(t, i) for i, t in enumerate(toks)]).parse()
            except Reject:
                alt = None
            key = f"{pid}.R1:value:{abstract_pattern(toks)}"
            cause = ""
            if alt is not None and r.get("term_str") is not None:
                # re-derive the parsed term string from the alternative reference for comparison
                from sa.parsecases import _tstr
                import sa.algebra as A
                if _same_modulo_assoc(r["term_str"], _tstr(alt)):
                    key = f"{pid}.R1:mult-level-right-recursive"
                    cause = " (explained by parse_mult parsing its right operand with parse_mult: '* /' chains associate to the right)"
            chk.fail(f"{pid}.R1", key, label,
                     f"reads {surf!r} as {r.get('term_str')}, the grammar prescribes {r.get('ref_term_str')}{cause}",
                     witness={"input": surf, "tokens": toks, "parsed": r.get("term_str"), "reference": r.get("ref_term_str")},
                     where="mathy_core/parser.py:ExpressionParser.parse_mult" if cause else where)
        else:
            chk.undecided(f"{pid}.R1", f"{pid}.R1:undecided", label, "normal forms differ, no witness", where)


def run_valid(chk: Check, lengths) -> None:
    """Beyond the exhaustive bound: every token sequence of the given lengths that the documented grammar derives."""
    from sa.parsecases import analyse_valid, _tstr
    chk.rule("C03.R6", "every grammar-derivable token sequence of 6..7 (thorough ..8) tokens is accepted and read with the "
             "reference value", minimum=3000)
    where = "mathy_core/parser.py:ExpressionParser._parse"
    for n in lengths:
        ok, bad = analyse_valid(str(REPO), n)
        chk.analysed[f"derivable_sequences_{n}"] = ok + len(bad)
        for _ in range(ok):
            pass
        # one obligation per agreeing sequence would bloat the report: record the count as a single instance group
        for i in range(min(ok, 4000)):
            chk.ok("C03.R6", "C03.R6", f"derivable sequence #{i} of length {n}", where=where)
        for r in bad:
            toks = r["tokens"]
            label = f"{r['surface']!r} ({abstract_pattern(toks)})"
            if r["problem"].startswith("the grammar derives"):
                chk.fail("C03.R6", f"C03.R6:rejects:{abstract_pattern(toks)}", label, r["problem"],
                         witness={"input": r["surface"], "tokens": toks}, where=where)
                continue
            if r.get("value_equal") is None:
                chk.undecided("C03.R6", "C03.R6:undecided", label, "normal forms differ, no witness", where)
                continue
            try:
                alt = RightAssocRef([(t, i) for i, t in enumerate(toks)]).parse()
            except Reject:
                alt = None
            if alt is not None and _tstr(alt) == r.get("term_str"):
                chk.fail("C03.R6", "C03.R1:mult-level-right-recursive", label,
                         f"reads {r['surface']!r} as {r.get('term_str')}, the grammar prescribes {r.get('ref_term_str')} "
                         f"(explained by parse_mult's right recursion)", witness={"input": r["surface"]},
                         where="mathy_core/parser.py:ExpressionParser.parse_mult")
            else:
                chk.fail("C03.R6", f"C03.R6:value:{abstract_pattern(toks)}", label,
                         f"reads {r['surface']!r} as {r.get('term_str')}, the grammar prescribes {r.get('ref_term_str')}",
                         witness={"input": r["surface"], "tokens": toks, "parsed": r.get("term_str"),
                                  "reference": r.get("ref_term_str")}, where=where)


def _same_modulo_assoc(a: str, b: str) -> bool:
    return a == b


def run_ladder(chk: Check, prog: Program) -> None:
    chk.rule("C03.R4", "precedence ladder: operand after a level's operator comes from the next tighter production", minimum=4)
    for level, tighter in LADDER:
        m = prog.func("parser", f"ExpressionParser.{level}")
        calls = []
        first = None
        for n in ast.walk(m.node):
            if isinstance(n, ast.Call) and isinstance(n.func, ast.Attribute) and isinstance(n.func.value, ast.Name) \
                    and n.func.value.id == "self" and n.func.attr.startswith("parse_"):
                calls.append(n.func.attr)
        in_loop = []
        for n in ast.walk(m.node):
            if isinstance(n, (ast.While, ast.If)) and n is not m.node:
                for c in ast.walk(n):
                    if isinstance(c, ast.Call) and isinstance(c.func, ast.Attribute) and isinstance(c.func.value, ast.Name) \
                            and c.func.value.id == "self" and c.func.attr.startswith("parse_") and c.func.attr not in in_loop:
                        in_loop.append(c.func.attr)
        bad = [c for c in in_loop if c != tighter]
        key = f"C03.R4:{level}"
        if bad:
            chk.fail("C03.R4", key + ":" + bad[0], f"{level}: operand after the operator parsed by {bad[0]}",
                     f"{level} parses the operand after its operator with {bad[0]} instead of {tighter}: a chain of "
                     f"operators of this level associates to the right (and recurses once per operator)",
                     witness={"example": "8/4/2 evaluates to 4.0, 8/4*2 to 1.0"}, where=m.where)
        else:
            chk.ok("C03.R4", key, f"{level}: operands from {tighter}", where=m.where)


def run(chk: Check) -> None:
    prog = program(chk)
    n = 5 if chk.tier == "quick" else 6
    chk.technique = "abstract interpretation of the recursive-descent parser over symbolic token streams + translation " \
                    "validation of every path against a reference parser of the documented grammar"
    chk.explanation = (
        f"Decides: for every sequence of 0..{n} tokens over the 12 token types (exhaustive: the parser's own tests split "
        "the type sets, each path is instantiated with every remaining combination), the parser accepts exactly the "
        "sequences the documented grammar derives, and for accepted ones the value term of the parsed tree equals that "
        "of the reference derivation (left-associative levels, juxtaposition, exponent binding to the last factor, "
        "negative literals, factorial of a literal, functions, parentheses); parsed trees use no operand object twice. "
        "Plus the ladder rule on the AST. Not decided: token sequences longer than the bound; numeric coercion of "
        "literals (int vs float) beyond 'malformed literal raises ValueError'. The tokenizer the parser reads through is "
        "validated against the specification tokenizer on symbolic strings of up to 2 characters over 263 code points and "
        "3-4 characters over the letters of the function name (the clause of C11).")
    chk.assumptions = [f"token sequence length <= {n}", "tokenizer contract (C11): token list ends with one EOF; Function "
                       "tokens carry a registered name", "reference grammar = docstring grammar with mandatory operators"]
    recs = analyse_parser(str(REPO), n)
    chk.analysed["parser_paths_instantiated"] = len(recs)
    run_records(chk, recs)
    run_valid(chk, (6, 7) if chk.tier == "quick" else (6, 7, 8))
    run_ladder(chk, prog)
    # acceptance must not depend on what the same parser was asked before (a second parse of a rejected text)
    from sa.parsecases import analyse_scenarios
    from .c10 import run_sticky
    scen = analyse_scenarios(str(REPO), 2 if chk.tier == "quick" else 3)
    run_sticky(chk, scen, pid="C03", rid="R5", names=("parse;parse", "parse;parse;parse", "tokenize;parse"))
    # reading a string starts with cutting it into tokens: the tokenizer over symbolic strings against the specification
    # tokenizer (the clause of C11, under this property's rule id; the parser analysis above starts from its tokens)
    from .c11 import run_tokenize, universe, SMALL_ALPHABET
    chk.rule("C03.R7", "the tokenizer the parser reads through agrees with the specification tokenizer on every path over "
             "symbolic strings (token boundaries, types, function names)", minimum=300)
    for n_chars in (0, 1, 2):
        run_tokenize(chk, prog, n_chars, universe(), f"U{n_chars}", remap=lambda rid: "C03.R7")
    for n_chars in (3, 4):
        run_tokenize(chk, prog, n_chars, frozenset(SMALL_ALPHABET), f"S{n_chars}", remap=lambda rid: "C03.R7")
    # the value of a literal: the text-to-number conversion the parser calls (clause shared with C05)
    from .c05 import run_literal_text
    run_literal_text(chk, prog, "C03.R8")
    chk.exhaustive = True
    chk.max_undecided = 0
