"""C05 - evaluation computes the mathematically correct number.

R1 operator semantics: the body of `operate` of every operator class is interpreted on symbolic operands; its result
   term must be the class's operator applied to the operands in order (E4), Sgn must be the three-way sign, Divide must
   return NaN exactly when the divisor is zero, Equal must return an operand exactly when the sides are equal and raise
   ValueError otherwise.
R2 plumbing: Binary/Unary `evaluate` pass the values of the left then right child (resp. the operand selected by
   get_child) to `operate` and forward the same context object.
R4 missing variable: VariableExpression.evaluate returns only the context's value for its identifier; every other path
   raises ValueError.
R6 exact integer arithmetic: no arithmetic on the operands goes through a fixed-width numpy routine.
"""
from __future__ import annotations

from typing import Any, Dict, List

from sa import algebra as A
from sa.absint import (AbsRaise, Dct, Ident, Interp, Node, Num, Opaque, Unsupported, _MISSING, explore)
from sa.model import Program
from sa.report import AnalysisError, Check
from sa.tables import name_literal
from .common import program

EXPECT_BIN = {"AddExpression": "add", "SubtractExpression": "sub", "MultiplyExpression": "mul",
              "DivideExpression": "div", "PowerExpression": "pow", "EqualExpression": "eq"}
EXPECT_UN = {"NegateExpression": "neg", "FactorialExpression": "factorial", "AbsExpression": "abs",
             "SgnExpression": "sgn"}
FIXED_WIDTH = ("numpy.power", "numpy.add", "numpy.subtract", "numpy.multiply", "numpy.prod", "numpy.sum",
               "numpy.negative", "numpy.int64", "numpy.int32", "numpy.float_power", "numpy.square")


def _strip_int(t):
    if t[0] == "fn" and t[1] in ("int",):
        return _strip_int(t[2])
    if t[0] in ("lit", "sym", "atom"):
        return t
    if t[0] == "fn":
        return ("fn", t[1], _strip_int(t[2]))
    return (t[0],) + tuple(_strip_int(x) for x in t[1:])


def _sign_of(it: Interp, sym) -> str:
    key, flip, c = it._canon_signed(sym)
    if c is not None:
        return "neg" if c < 0 else ("zero" if c == 0 else "pos")
    al = it.num_facts.get(key)
    if al is None:
        return "?"
    if flip:
        al = frozenset(it._FLIP[a] for a in al)
    return "|".join(sorted(al))


def run_operate(chk: Check, prog: Program, only=None, r1: str = "C05.R1", r6: str = "C05.R6") -> None:
    """`only` restricts the clause to some operator classes and r1 / r6 rename the rules (C02 re-uses the Equal clause: an
    equation 'holds' exactly when Equal.operate accepts its sides)."""
    if only is None:
        chk.rule(r1, "operate body == the class's operator on the operands in order (symbolic interpretation)", minimum=14)
        chk.rule(r6, "no fixed-width numeric routine on operand values in evaluate/operate", minimum=10)

    def ext_isclose(it, path, args, kwargs):
        a, b = it.to_term(args[0]), it.to_term(args[1])
        if a is None or b is None:
            raise Unsupported("isclose on non numbers")
        if it.sign_query(("sub", a, b), frozenset(["zero"]), f"{A.term_str(a)}=={A.term_str(b)}"):
            return True
        return it.atom(f"within-tolerance({A.term_str(a)},{A.term_str(b)})")

    for kind, op in list(EXPECT_BIN.items()) + list(EXPECT_UN.items()):
        if only is not None and kind not in only:
            continue
        m = prog.find_method(kind, "operate")
        if m is None or m.cls is None or m.cls.name in ("BinaryExpression", "UnaryExpression"):
            raise AnalysisError(f"{kind}.operate vanished")
        binary = kind in EXPECT_BIN

        def body(it: Interp, kind=kind, m=m, binary=binary):
            node = it.new_summary(frozenset([kind]), "arg")
            it.hooks["ext:math.isclose"] = ext_isclose
            it.hooks["ext:numpy.isclose"] = ext_isclose
            a = Num(("sym", "one"))
            b = Num(("sym", "two"))
            return it.call_function(m, [node, a] + ([b] if binary else []), {})

        results = explore(prog, body, {"max_updepth": 0})
        one, two = ("sym", "one"), ("sym", "two")
        for p in results:
            it = p.interp
            label = f"{kind}.operate: {p.cond or 'single path'}"
            key = f"{r1}:{kind}.operate"
            probs: List[str] = []
            exts = [e[1] for e in it.events if e[0] == "ext"]
            if p.outcome == "bound":
                chk.undecided(r1, key, label, p.note, m.where)
                continue
            if op == "eq":
                eqfact = _sign_of(it, ("sub", one, two))
                if p.outcome == "raise":
                    if p.exc.exc != "ValueError":
                        probs.append(f"raises {p.exc.exc}, the contract is ValueError")
                    if eqfact == "zero":
                        probs.append("raises although the sides are equal")
                    elif eqfact == "?":
                        probs.append("raises without comparing the two sides")
                else:
                    t = it.to_term(p.value)
                    if eqfact != "zero":
                        probs.append(f"returns {p.value!r} on a path where the sides are not known to be equal "
                                     f"(facts: one-two in {eqfact}; {dict(it.atoms)})")
                    elif t is None or not (A.equal_nf(t, one) or A.equal_nf(t, two)):
                        probs.append(f"returns {p.value!r}, not the common value")
            elif p.outcome == "raise":
                probs.append(f"raises {p.exc.exc} ({p.exc.detail})")
            else:
                t = it.to_term(p.value)
                if t is None:
                    probs.append(f"returns non-number {p.value!r}")
                else:
                    t = _strip_int(t)
                    if op in ("add", "sub", "mul", "pow"):
                        if not A.equal_nf(t, (op, one, two)):
                            probs.append(f"returns {A.term_str(t)}, expected one {op} two")
                    elif op == "div":
                        z = _sign_of(it, two)
                        if z == "zero":
                            if t != ("atom", "nonfinite:nan"):
                                probs.append(f"division by zero returns {A.term_str(t)}, expected NaN")
                        elif z == "?":
                            probs.append("divides without testing the divisor for zero")
                        elif not A.equal_nf(t, ("div", one, two)):
                            probs.append(f"returns {A.term_str(t)}, expected one / two")
                    elif op == "neg":
                        if not A.equal_nf(t, ("neg", one)):
                            probs.append(f"returns {A.term_str(t)}, expected -value")
                    elif op in ("abs", "factorial"):
                        if t != ("fn", op, one):
                            probs.append(f"returns {A.term_str(t)}, expected {op}(value)")
                    elif op == "sgn":
                        s = _sign_of(it, one)
                        want = {"neg": -1, "pos": 1, "zero": 0}.get(s)
                        c = A.nf_is_const(A.normalize(t))
                        if want is None or c is None or c != want:
                            probs.append(f"returns {A.term_str(t)} when sign(value) is {s}")
            chk.verdict(not probs, r1, key, label, "; ".join(probs), witness={"path": p.cond, "problems": probs},
                        where=m.where)
            if r6 is None:
                continue
            bad = [e for e in exts if e in FIXED_WIDTH]
            if bad:
                chk.fail(r6, f"{r6}:{kind}.operate:{bad[0]}", label,
                         f"arithmetic on the operand values goes through {bad[0]}: integers are int64 there, so results "
                         f"beyond 2^63 wrap silently and integer^negative-integer raises",
                         witness={"example": "2^64 evaluates to 0, 10^19 to -8446744073709551616"}, where=m.where)
            else:
                chk.ok(r6, f"{r6}:{kind}.operate", label + (f" (external: {exts})" if exts else ""), where=m.where)


def run_plumbing(chk: Check, prog: Program) -> None:
    chk.rule("C05.R2", "evaluate passes eval(left), eval(right) (resp. eval(get_child())) to operate and forwards the context",
             minimum=10)
    # every operator class: the method its MRO resolves `evaluate` to (an override in one class is judged like the
    # shared one; SgnExpression reaches Unary's through FunctionExpression)
    for kind in list(EXPECT_BIN) + list(EXPECT_UN):
        base = "BinaryExpression" if kind in EXPECT_BIN else "UnaryExpression"
        if prog.cls(kind) is None:
            raise AnalysisError(f"operator class {kind} vanished")
        m = prog.find_method(kind, "evaluate")
        if m is None:
            raise AnalysisError(f"{kind}.evaluate vanished")

        def body(it: Interp, kind=kind, m=m):
            node = it.new_summary(frozenset([kind]), "arg")
            it.arg = node
            ctx = Dct({"<ctx>": 1})
            it.ctx = ctx
            it.log = []

            def h_eval(it2, info, args, kwargs):
                selfv = args[0]
                if isinstance(selfv, Node) and selfv.cid == node.cid:
                    return NotImplemented
                c = args[1] if len(args) > 1 else kwargs.get("context")
                it2.log.append(("eval", selfv.cid, c is ctx))
                return Num(("sym", f"e{selfv.cid}"))

            def h_operate(it2, info, args, kwargs):
                it2.log.append(("operate", [A.term_str(it2.to_term(a)) if it2.to_term(a) is not None else repr(a) for a in args[1:]]))
                return Num(("sym", "result"))
            for cname, cinfo in prog.classes.items():
                if "evaluate" in cinfo.methods:
                    it.hooks[f"{cname}.evaluate"] = h_eval
                if "__str__" in cinfo.methods and prog.is_subclass(cname, "BinaryTreeNode"):
                    # the printed form of a child is some text (an evaluate() that consults it must not depend on it)
                    it.hooks[f"{cname}.__str__"] = lambda it2, info, args, kwargs: Opaque(f"text-of-{args[0].cid}", truthy=True)
            for k in list(EXPECT_BIN) + list(EXPECT_UN):
                it.hooks[f"{k}.operate"] = h_operate
            return it.call_function(m, [node, ctx], {})

        # one-operand nodes are interpreted with the operand recorded on either side
        sides = (False, True) if base == "UnaryExpression" else (False,)
        paths = [(col_, p_) for col_ in sides for p_ in explore(prog, body, {"max_updepth": 0, "child_on_left": col_})]
        for col_, p in paths:
            it = p.interp
            label = f"{kind} -> {m.qualname}{' (operand on the left)' if col_ else ''}: {p.cond or 'single path'}"
            key = f"C05.R2:{kind}:{m.qualname}"
            probs = []
            if p.outcome != "return":
                probs.append(f"{p.outcome} {p.exc or p.note}")
            else:
                cell = it.cells[it.arg.cid]
                l, r = cell.cur.get("left"), cell.cur.get("right")
                if base == "BinaryExpression":
                    want = [f"e{l.cid}", f"e{r.cid}"] if isinstance(l, Node) and isinstance(r, Node) else None
                else:
                    col = cell.cur.get("child_on_left", False)
                    ch = l if col is True else r
                    want = [f"e{ch.cid}"] if isinstance(ch, Node) else None
                ops = [e for e in it.log if e[0] == "operate"]
                if len(ops) != 1 or want is None or ops[0][1] != want:
                    probs.append(f"operate receives {ops}, expected the child values {want} in order")
                if not all(e[2] for e in it.log if e[0] == "eval"):
                    probs.append("a child is evaluated without the caller's context")
                t = it.to_term(p.value)
                if t != ("sym", "result"):
                    probs.append(f"evaluate returns {p.value!r} instead of operate's result")
            chk.verdict(not probs, "C05.R2", key, label, "; ".join(probs), where=m.where)


def run_variable(chk: Check, prog: Program) -> None:
    chk.rule("C05.R4", "VariableExpression.evaluate returns only the context's value for its identifier, else raises ValueError",
             minimum=4)
    m = prog.func("expressions", "VariableExpression.evaluate")
    for mode in ("none", "empty", "other-key", "has-key", "none-value"):
        def body(it: Interp, mode=mode):
            node = it.new_summary(frozenset(["VariableExpression"]), "arg")
            it.arg = node
            ident = it.read_field(it.cells[node.cid], "identifier")
            it.val = Num(("sym", "ctxval"))
            if mode == "none":
                ctx = None
            elif mode == "empty":
                ctx = Dct()
            elif mode == "other-key":
                ctx = Dct({Ident("other"): Num(("sym", "otherval"))})
                it.ident_diseq.add(frozenset([it.ident_find(ident.name), "other"]))
            elif mode == "none-value":
                ctx = Dct({ident: None})
            else:
                ctx = Dct({ident: it.val})
            return it.call_function(m, [node, ctx], {})
        for p in explore(prog, body, {"max_updepth": 0}):
            it = p.interp
            label = f"VariableExpression.evaluate with context {mode}"
            probs = []
            if mode == "has-key":
                if not (p.outcome == "return" and p.value is it.val):
                    probs.append(f"expected the context's value, got {p.outcome} {p.value!r} {p.exc}")
            else:
                if not (p.outcome == "raise" and p.exc.exc == "ValueError"):
                    got = repr(p.value) if p.outcome == "return" else str(p.exc)
                    probs.append(f"a variable without a value must raise ValueError, got {p.outcome} {got}")
            chk.verdict(not probs, "C05.R4", f"C05.R4:VariableExpression.evaluate:{mode}", label, "; ".join(probs),
                        witness={"context": mode}, where=m.where)
    # constants evaluate to their payload
    mc = prog.func("expressions", "ConstantExpression.evaluate")

    def body_c(it: Interp):
        node = it.new_summary(frozenset(["ConstantExpression"]), "arg")
        it.arg = node
        return it.call_function(mc, [node, None], {})
    for p in explore(prog, body_c, {"max_updepth": 0}):
        it = p.interp
        v = it.cells[it.arg.cid].cur.get("value")
        ok = p.outcome == "return" and isinstance(p.value, Num) and isinstance(v, Num) and p.value.term == v.term
        chk.verdict(ok, "C05.R4", "C05.R4:ConstantExpression.evaluate", "ConstantExpression.evaluate",
                    f"{p.outcome} {p.value!r}", where=mc.where)


def run_literal_text(chk: Check, prog: Program, rid: str = "C05.R7") -> None:
    """The number a literal's text denotes: an integer text (no '.', no exponent mark) must be converted by int() applied to
    the text itself - a detour through float() rounds every integer above 2^53 - and a text with a '.' by float()."""
    chk.rule(rid, "literal text -> number: integer texts through int(text) exactly, decimal texts through float(text)", minimum=2)
    f = prog.func("tokenizer", "coerce_to_number")

    def body(it: Interp):
        text = Opaque("text:literal", truthy=True)
        return it.call_function(f, [text], {})
    n = 0
    for p in explore(prog, body, {"max_updepth": 0}, max_paths=64):
        it = p.interp
        n += 1
        has_dot = it.atoms.get("in:'.':Opaque<text:literal>")
        has_e = it.atoms.get("in:'e':Opaque<text:literal>")
        label = f"coerce_to_number on a literal text: {p.cond or 'single path'}"
        key = f"{rid}:coerce_to_number"
        if p.outcome == "raise":
            # a malformed number text ("1.2.3") is rejected with ValueError; a well-formed literal must convert
            malformed = it.atoms.get("malformed:text:literal")
            ok_raise = p.exc.exc == "ValueError" and malformed is True
            chk.verdict(ok_raise, rid, key if ok_raise else key + ":rejects-literal", label,
                        "" if ok_raise else f"a well-formed literal is rejected: {p.exc} (e.g. '5.0' when a decimal text reaches int())",
                        where=f.where)
            continue
        t = it.to_term(p.value) if p.outcome == "return" else None
        if t is None:
            chk.fail(rid, key + ":value", label, f"returns {p.value!r}", where=f.where)
            continue
        atom = ("atom", "text:literal")
        if has_dot is None and has_e is None:
            # the code never asked what kind of literal it is: only an exact conversion of integer texts is acceptable
            ok = t == ("fn", "int_of_text", atom)
            why = "the text is converted without distinguishing integer from decimal literals"
        elif not has_dot and not has_e:
            ok = t == ("fn", "int_of_text", atom)
            why = f"an integer literal becomes {A.term_str(t)}: not int(text) - integers above 2^53 are rounded when the " \
                  f"value passes through a float (9007199254740993 reads as 9007199254740992)"
        else:
            ok = t in (("fn", "float_of_text", atom), ("fn", "int_of_text", atom))
            why = f"a decimal literal becomes {A.term_str(t)}"
        chk.verdict(ok, rid, key, label, "" if ok else why, witness=None if ok else {"example": "9007199254740993"}, where=f.where)
    if n == 0:
        raise AnalysisError("coerce_to_number has no path")


def run(chk: Check) -> None:
    prog = program(chk)
    chk.technique = "symbolic interpretation of operate/evaluate bodies + normal-form comparison; external-routine table"
    chk.explanation = (
        "Decides: the body of operate of each of the 10 operator classes, interpreted on symbolic operands, returns the "
        "operator of that class applied to the operands in order (Divide: NaN exactly on a zero divisor; Sgn: the "
        "three-way sign; Equal: an operand exactly when the sides are equal, ValueError otherwise); Binary/Unary "
        "evaluate feed operate with the children's values in order and forward the context; a variable evaluates only "
        "to the context's non-None value for its identifier and raises ValueError otherwise; constants evaluate to "
        "their payload; no operator goes through a fixed-width numpy routine (today PowerExpression does: known "
        "finding); the text of an integer literal is converted by int() applied to the text itself, never through a float. "
        "Not decided: ulp accuracy of float results, magnitude behaviour of float overflow, the exactness of "
        "numpy.absolute / math.factorial themselves.")
    chk.assumptions = ["Python int/float operators and math.factorial are exact (language semantics)",
                       "numpy ufuncs on Python ints use int64 (external table)"]
    chk.trusted = ["external-routine table: numpy.power/add/... are fixed width; math.isclose/np.isclose accept unequal values"]
    run_operate(chk, prog)
    run_plumbing(chk, prog)
    run_variable(chk, prog)
    run_literal_text(chk, prog)
    chk.exhaustive = True
    chk.max_undecided = 0
