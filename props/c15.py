"""C15 - rotation preserves the in-order sequence and link consistency.

R1 BinaryTreeNode.rotate is interpreted (E3/E5: points-to with strong updates) over every configuration of the
   neighbourhood: node is the root / a left / a right child; grandparent absent / parent is its left / right child;
   presence of node.left, node.right and the sibling (each node may have 0, left-only, right-only or 2 children).
   Judged on the final points-to graph: child.parent points back for every link, the node sits above its former
   parent on the correct side, the grandparent's slot holds the node, the in-order sequence (subtrees as opaque
   atoms) is unchanged, the root case changes nothing.
R2 AssociativeSwapRule.apply_to rotates its argument and passes the same node to done(); its classifier guarantees
   a parent with the same operator.
"""
from __future__ import annotations

from typing import List, Optional

from sa.absint import AbsRaise, Interp, Node, _MISSING, explore
from sa.heapterm import HeapView
from sa.model import Program
from sa.report import AnalysisError, Check
from .common import program, rule_records, case_label, where_rule


def inorder(it: Interp, cid: int, view: str, depth: int = 0) -> List[str]:
    if depth > 30:
        return ["<cycle>"]
    cell = it.cells[cid]
    d = cell.entry if view == "entry" else cell.cur
    out: List[str] = []

    def sub(s):
        v = d.get(s, cell.entry.get(s, _MISSING) if view == "cur" else _MISSING)
        if isinstance(v, Node):
            return inorder(it, v.cid, view, depth + 1)
        if v is None:
            return []
        return [f"sub({cid}.{s})"]
    out += sub("left")
    out.append(f"n{cid}")
    out += sub("right")
    return out


def top_of(it: Interp, cid: int, view: str) -> int:
    seen = set()
    while cid not in seen:
        seen.add(cid)
        cell = it.cells[cid]
        d = cell.entry if view == "entry" else cell.cur
        p = d.get("parent", cell.entry.get("parent", _MISSING) if view == "cur" else _MISSING)
        if isinstance(p, Node):
            cid = p.cid
        else:
            break
    return cid


def audit(it: Interp, top: int) -> List[str]:
    probs = []
    seen = {}
    stack = [top]
    while stack:
        cid = stack.pop()
        seen[cid] = seen.get(cid, 0) + 1
        if seen[cid] > 1:
            probs.append(f"node n{cid} reachable twice")
            continue
        cell = it.cells[cid]
        for s in ("left", "right"):
            v = cell.cur.get(s, cell.entry.get(s, _MISSING))
            if isinstance(v, Node):
                ch = it.cells[v.cid]
                pv = ch.cur.get("parent", ch.entry.get("parent", _MISSING))
                if not (isinstance(pv, Node) and pv.cid == cid):
                    probs.append(f"n{v.cid} is the {s} child of n{cid} but its parent pointer is {pv!r}")
                stack.append(v.cid)
    tp = it.cells[top].cur.get("parent", it.cells[top].entry.get("parent", _MISSING))
    if isinstance(tp, Node):
        probs.append("top node has a parent that does not list it")
    return probs


def run_r1(chk: Check, prog: Program) -> None:
    chk.rule("C15.R1", "rotate over all neighbourhood configurations: links consistent, in-order unchanged, node above "
             "its parent, grandparent slot updated, root no-op", minimum=20)
    m = prog.func("tree", "BinaryTreeNode.rotate")

    # one node class throughout, and a tree that mixes two node classes (rotation must not depend on the classes of the
    # node and its neighbours: every neighbour independently ranges over both)
    # every concrete expression class: rotation takes nodes of any class into any position (a one-operand node can end
    # up holding a second child), so each node of the neighbourhood ranges over all of them
    binary_kinds = frozenset(prog.concrete_kinds())
    universes = [("", frozenset(["BinaryTreeNode"])), ("mixed classes: ", binary_kinds or frozenset(["AddExpression", "MultiplyExpression"]))]
    from .common import value_equal_classes
    veq = value_equal_classes(prog)
    if veq:
        # node classes with a user-defined == : rotation must go by identity of the nodes, not by what == answers
        universes.append(("value-comparing classes: ", frozenset(veq[:2] + ["BinaryTreeNode"])))
    results = []
    for tag, kinds in universes:
        def body(it: Interp, kinds=kinds):
            node = it.new_summary(kinds, "arg")
            it.arg = node
            return it.call(it.getattr_(node, "rotate"), [], {})   # virtual dispatch: an override in a subclass is what runs
        for p in explore(prog, body, {"tree_mode": "binary", "max_updepth": 2, "child_on_left": "any"}):
            p.tag = tag
            results.append(p)
    n_cfg = 0
    for p in results:
        it = p.interp
        arg = it.arg.cid
        cfg = p.tag + p.cond
        n_cfg += 1
        key = "C15.R1:BinaryTreeNode.rotate"
        if p.outcome != "return":
            chk.fail("C15.R1", key + ":raise", cfg, f"rotate raises / does not finish: {p.exc or p.note}",
                     witness={"configuration": cfg}, where=m.where)
            continue
        probs: List[str] = []
        if not (isinstance(p.value, Node) and p.value.cid == arg):
            probs.append(f"rotate returns {p.value!r}, not the node")
        bt = top_of(it, arg, "entry")
        at = top_of(it, arg, "cur")
        before = inorder(it, bt, "entry")
        after = inorder(it, at, "cur")
        if before != after:
            probs.append(f"in-order sequence changes: {before} -> {after}")
        probs += audit(it, at)
        a = it.cells[arg]
        ep = a.entry.get("parent", _MISSING)
        if ep is None:
            changed = [(c.cid, f) for c in it.cells.values() for f in ("left", "right", "parent")
                       if f in c.cur and f in c.entry and c.cur[f] != c.entry[f] and not (c.cur[f] is None and c.entry[f] is None)]
            if changed:
                probs.append(f"rotating a root changes links {changed}")
        elif isinstance(ep, Node):
            pc = it.cells[ep.cid]
            was_left = isinstance(pc.entry.get("left"), Node) and pc.entry["left"].cid == arg
            side = "right" if was_left else "left"
            v = a.cur.get(side, _MISSING)
            if not (isinstance(v, Node) and v.cid == ep.cid):
                probs.append(f"former parent is not the node's {side} child after the rotation")
            gp = pc.entry.get("parent", _MISSING)
            if isinstance(gp, Node):
                gc = it.cells[gp.cid]
                slot = "left" if isinstance(gc.entry.get("left"), Node) and gc.entry["left"].cid == ep.cid else "right"
                gv = gc.cur.get(slot, _MISSING)
                if not (isinstance(gv, Node) and gv.cid == arg):
                    probs.append(f"grandparent's {slot} slot does not hold the rotated node")
                np_ = a.cur.get("parent", _MISSING)
                if not (isinstance(np_, Node) and np_.cid == gp.cid):
                    probs.append("rotated node's parent is not the grandparent")
            elif gp is None:
                if a.cur.get("parent", _MISSING) is not None:
                    probs.append("rotated node should become the root (parent None)")
        chk.verdict(not probs, "C15.R1", key, cfg, "; ".join(probs), witness={"configuration": cfg, "problems": probs},
                    where=m.where)
    chk.analysed["rotate_configurations"] = n_cfg


def run_r2(chk: Check, recs: List[dict]) -> None:
    chk.rule("C15.R2", "AssociativeSwap: classifier guarantees a same-operator parent; apply rotates the argument and "
             "returns it; value preserved (associativity)", minimum=8)
    for r in recs:
        if r["rule"] != "AssociativeSwapRule" or r["outcome"] != "applied":
            continue
        label = case_label(r)
        probs = []
        if "judge_error" in r or "value" not in r:
            chk.fail("C15.R2", f"C15.R2:AssociativeSwapRule:judge:{r.get('arg_shape')}", label,
                     f"result graph cannot be judged: {r.get('judge_error', r.get('result_repr'))}",
                     witness={"path": r["cond"][:300]}, where=where_rule(r))
            continue
        if r.get("result_new"):
            probs.append("result is not the argument node")
        if r["value"]["verdict"] != "equal":
            probs.append(f"value not preserved: {r['value']}")
        for f in ("links", "attach", "context"):
            if r.get(f):
                probs.append(f"{f}: {r[f][0]}")
        chk.verdict(not probs, "C15.R2", f"C15.R2:AssociativeSwapRule:{r.get('before_shape')}", label, "; ".join(probs),
                    witness={"before": r.get("before_shape"), "after": r.get("after_shape")}, where=where_rule(r))


def run(chk: Check) -> None:
    prog = program(chk)
    chk.technique = "points-to analysis with strong updates over all neighbourhood configurations (abstract interpretation " \
                    "of rotate), audit of the final graph"
    chk.explanation = (
        "Decides: BinaryTreeNode.rotate, interpreted from source over every configuration of (node is root / left / "
        "right child) x (no grandparent / parent is the grandparent's left / right child) x presence of node.left, "
        "node.right and of the inner/outer subtrees touched, ends in a graph where every child link has the matching "
        "parent pointer, the node sits above its former parent, the grandparent's slot holds the node, the in-order "
        "sequence with untouched subtrees as opaque atoms is unchanged, and a root is returned unchanged. "
        "AssociativeSwap applies exactly this rotation to its argument. Subtrees not inspected by rotate are summary "
        "cells, so the result holds for every tree shape and every node. Not decided: nothing of the statement beyond "
        "the assumption that the input links are consistent.")
    chk.assumptions = ["input tree has consistent parent/child links", "node objects compare by identity (language guard)"]
    run_r1(chk, prog)
    run_r2(chk, rule_records(chk))
    chk.exhaustive = True
    chk.max_undecided = 0
