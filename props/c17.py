"""C17 - generated problems are always valid and contain what they promise (decided clauses only).

R1 variable pool: interval analysis of the integer arguments of every get_rand_vars(n, exclude) call under the
   generator's default / documented parameters: max n <= |pool| - |exclude| (else the retry bound is certain to trip).
R2 split identity: split_in_two_random returns (min, max) of left and value - left.
R3 alphabet: every literal character the generators can emit is accepted by the tokenizer.
R4 positive complexity: interval of the returned complexity under default parameters is > 0.
R6 generated text: every random choice forked or symbolic, small term counts; the text of each path must be derivable in
   the documented grammar (reference parser of C03).
R5 like-term pair: in the generators that promise a pair of like terms, interpreted (E3) with every random draw as a
   fresh symbol and every coin flip forked, exactly two terms carry the focus variable and their exponent parts are
   the same draw.
Not decided: that the text parses; that has_like_terms() agrees; seeds; the retry loop's probabilistic bound.
"""
from __future__ import annotations

import ast
from typing import Any, Dict, List, Optional, Tuple

from sa import algebra as A
from sa.absint import (AbsRaise, Interp, Lst, Num, Opaque, Render, Tup, Unsupported, explore, _flatten_render)
from sa.model import FuncInfo, Program, const_fold, unparse
from sa.report import AnalysisError, Check
from .common import program
from .c11 import spec_class

Interval = Tuple[float, float]


class Intervals:
    """Straight-line interval evaluation of integer expressions inside one generator (joins over branches)."""

    def __init__(self, prog: Program, f: FuncInfo):
        self.prog = prog
        self.f = f
        self.env: Dict[str, Optional[Interval]] = {}
        self.flags: Dict[str, bool] = {}
        a = f.node.args
        params = a.args + a.kwonlyargs
        defaults = [None] * (len(a.args) - len(a.defaults)) + list(a.defaults) + list(a.kw_defaults)
        for p, d in zip(params, defaults):
            self.env[p.arg] = self.ev(d) if d is not None else ASSUMED_RANGES.get(p.arg)
            if d is not None and isinstance(d, ast.Constant) and isinstance(d.value, bool):
                self.flags[p.arg] = d.value
        self.walk(f.node.body)

    def walk(self, stmts):
        for st in stmts:
            if isinstance(st, (ast.Assign, ast.AnnAssign)) and getattr(st, "value", None) is not None:
                tgts = st.targets if isinstance(st, ast.Assign) else [st.target]
                v = self.ev(st.value)
                for t in tgts:
                    if isinstance(t, ast.Name):
                        old = self.env.get(t.id, "unset")
                        if old == "unset" or t.id not in self.env:
                            self.env[t.id] = v
                        else:
                            self.env[t.id] = self.join(old, v)
            elif isinstance(st, ast.AugAssign) and isinstance(st.target, ast.Name):
                cur = self.env.get(st.target.id)
                rhs = self.ev(st.value)
                self.env[st.target.id] = self.join(cur, self.binop(st.op, cur, rhs))
            elif isinstance(st, (ast.If, ast.For, ast.While)):
                self.walk(st.body)
                self.walk(st.orelse)

    @staticmethod
    def join(a, b):
        if a is None or b is None:
            return None
        return (min(a[0], b[0]), max(a[1], b[1]))

    def binop(self, op, a, b):
        if a is None or b is None:
            return None
        if isinstance(op, ast.Add):
            return (a[0] + b[0], a[1] + b[1])
        if isinstance(op, ast.Sub):
            return (a[0] - b[1], a[1] - b[0])
        if isinstance(op, ast.Mult):
            c = [a[0] * b[0], a[0] * b[1], a[1] * b[0], a[1] * b[1]]
            return (min(c), max(c))
        if isinstance(op, ast.FloorDiv) and b[0] > 0:
            c = [a[0] // b[0], a[0] // b[1], a[1] // b[0], a[1] // b[1]]
            return (min(c), max(c))
        return None

    def ev(self, e) -> Optional[Interval]:
        if e is None:
            return None
        if isinstance(e, ast.Constant):
            if isinstance(e.value, bool):
                return None
            if isinstance(e.value, (int, float)):
                return (e.value, e.value)
            return None
        if isinstance(e, ast.Name):
            if e.id in self.env:
                return self.env[e.id]
            r = self.prog.resolve_name(self.f.module, e.id)
            if r and r[0] == "const":
                try:
                    v = const_fold(self.prog, r[2], r[1])
                    if isinstance(v, (int, float)) and not isinstance(v, bool):
                        return (v, v)
                except ValueError:
                    pass
            return None
        if isinstance(e, ast.BinOp):
            return self.binop(e.op, self.ev(e.left), self.ev(e.right))
        if isinstance(e, ast.Call):
            fn = unparse(e.func)
            args = [self.ev(a) for a in e.args]
            if fn == "random.randint" and len(args) == 2 and None not in args:
                return (args[0][0], args[1][1])
            if fn in ("max", "min") and args and None not in args:
                f = max if fn == "max" else min
                return (f(a[0] for a in args), f(a[1] for a in args))
            if fn == "int" and len(args) == 1 and args[0] is not None:
                return (int(args[0][0]), int(args[0][1]))
            if fn == "len" and len(e.args) == 1:
                a0 = e.args[0]
                if isinstance(a0, (ast.List, ast.Tuple)):
                    return (len(a0.elts), len(a0.elts))
                if isinstance(a0, ast.Name):
                    r = self.prog.resolve_name(self.f.module, a0.id)
                    if r and r[0] == "const":
                        try:
                            v = const_fold(self.prog, r[2], r[1])
                            return (len(v), len(v))
                        except (ValueError, TypeError):
                            pass
                    return self.env.get("len:" + a0.id)
            return None
        return None


# a required term-count parameter ranges from 2 up to the number of letters (beyond that no request for distinct
# variables can be met whatever the code does)
ASSUMED_RANGES = {"num_terms": (2, 26)}


def exclude_size(f: FuncInfo, e: Optional[ast.expr], iv: Intervals) -> Optional[Interval]:
    if e is None:
        return (0, 0)
    if isinstance(e, (ast.List, ast.Tuple)):
        return (len(e.elts), len(e.elts))
    if isinstance(e, ast.Name):
        # a list produced by an earlier get_rand_vars(n) call has n distinct variables
        for n in ast.walk(f.node):
            if isinstance(n, ast.Assign) and isinstance(n.targets[0], ast.Name) and n.targets[0].id == e.id \
                    and isinstance(n.value, ast.Call) and unparse(n.value.func) == "get_rand_vars" and n.value.args:
                return iv.ev(n.value.args[0])
        if e.id in ("exclude_vars",):
            return None
    return None


def run_pool(chk: Check, prog: Program) -> None:
    chk.rule("C17.R1", "max requested distinct variables <= pool size - excluded, per get_rand_vars call site under default "
             "parameters", minimum=5)
    mod = prog.module("problems")
    pool = const_fold(prog, mod, mod.assigns["variables"])
    common_pool = const_fold(prog, mod, mod.assigns["common_variables"]) if "common_variables" in mod.assigns else pool
    # which pool get_rand_vars draws from depends on its common_variables argument (handed on to rand_var)
    grv = mod.functions.get("get_rand_vars")
    passes_on = grv is not None and any(
        isinstance(n, ast.Call) and unparse(n.func) == "rand_var" and any(isinstance(x, ast.Name) and x.id == "common_variables"
                                                                         for a_ in list(n.args) + [k.value for k in n.keywords]
                                                                         for x in ast.walk(a_))
        for n in ast.walk(grv.node))
    for f in mod.functions.values():
        iv = None
        for n in ast.walk(f.node):
            if isinstance(n, ast.Call) and unparse(n.func) == "get_rand_vars" and n.args:
                if iv is None:
                    iv = Intervals(prog, f)
                req = iv.ev(n.args[0])
                exc_e = n.args[1] if len(n.args) > 1 else None
                for kw in n.keywords:
                    if kw.arg == "exclude_vars":
                        exc_e = kw.value
                exc = exclude_size(f, exc_e, iv)
                key = f"C17.R1:{f.name}:{unparse(n)}"
                construct = f"{unparse(n)} in {f.name}"
                if req is None or exc is None:
                    chk.info("C17.R1", key, construct, "request driven by a parameter without default / documented range: "
                             "not decided")
                    continue
                use_pool = pool
                if passes_on:
                    cv = next((kw.value for kw in n.keywords if kw.arg == "common_variables"), n.args[2] if len(n.args) > 2 else None)
                    on = None
                    if isinstance(cv, ast.Constant):
                        on = cv.value is True
                    elif isinstance(cv, ast.Name):
                        on = iv.flags.get(cv.id)
                    if on:
                        use_pool = common_pool
                avail = len(use_pool) - exc[1]
                if req[1] <= avail:
                    chk.ok("C17.R1", key, construct, f"requests {req}, pool {len(use_pool)} - excluded {exc} = {avail}", f.where)
                else:
                    chk.fail("C17.R1", key, construct,
                             f"with its default parameters {f.name} can request {int(req[1])} distinct variables but only "
                             f"{avail} exist ({len(use_pool)} letters minus {int(exc[1])} excluded): the request cannot be "
                             f"fulfilled and get_rand_vars raises ValueError",
                             witness={"requested_range": req, "pool": len(pool), "excluded": exc}, where=f.where)


def run_complexity(chk: Check, prog: Program) -> None:
    chk.rule("C17.R4", "returned complexity is positive under default parameters", minimum=3)
    mod = prog.module("problems")
    for f in mod.functions.values():
        if not f.name.startswith("gen_"):
            continue
        iv = Intervals(prog, f)
        for n in ast.walk(f.node):
            if isinstance(n, ast.Return) and isinstance(n.value, ast.Tuple) and len(n.value.elts) == 2:
                c = iv.ev(n.value.elts[1])
                key = f"C17.R4:{f.name}"
                construct = f"{f.name} returns complexity {unparse(n.value.elts[1])}"
                if c is None:
                    chk.info("C17.R4", key, construct, "depends on a parameter without default / on list lengths: not decided")
                elif c[0] > 0:
                    chk.ok("C17.R4", key, construct, f"interval {c}", f.where)
                else:
                    chk.fail("C17.R4", key, construct, f"complexity interval {c} reaches 0 or below", witness={"interval": c},
                             where=f.where)


def run_alphabet(chk: Check, prog: Program) -> None:
    chk.rule("C17.R3", "every literal character a generator can emit is in the tokenizer's alphabet", minimum=20)
    mod = prog.module("problems")
    seen = set()
    for f in mod.functions.values():
        if not (f.name.startswith("gen_") or f.name in ("mathy_term_string", "maybe_power", "get_blocker")):
            continue
        for n in ast.walk(f.node):
            lits: List[str] = []
            if isinstance(n, ast.JoinedStr):
                lits = [v.value for v in n.values if isinstance(v, ast.Constant) and isinstance(v.value, str)]
            elif isinstance(n, ast.Call) and isinstance(n.func, ast.Attribute) and n.func.attr in ("format", "join") \
                    and isinstance(n.func.value, ast.Constant) and isinstance(n.func.value.value, str):
                lits = [n.func.value.value.replace("{}", "")]
            for s in lits:
                for ch in s:
                    if (f.name, ch) in seen:
                        continue
                    seen.add((f.name, ch))
                    ok = spec_class(ch) != "unsupported"
                    chk.verdict(ok, "C17.R3", f"C17.R3:{f.name}:{ch!r}", f"literal {ch!r} emitted by {f.name}",
                                "" if ok else "the tokenizer raises ValueError on this character", where=f.where)
    for name in ("operators", "variables", "common_variables"):
        vals = const_fold(prog, mod, mod.assigns[name])
        for ch in vals:
            ok = spec_class(ch) != "unsupported" and (name == "operators" or spec_class(ch).startswith("letter"))
            chk.verdict(ok, "C17.R3", f"C17.R3:{name}:{ch!r}", f"{name} contains {ch!r}", "" if ok else "not tokenizable as intended",
                        where="mathy_core/problems.py")


def run_split(chk: Check, prog: Program) -> None:
    chk.rule("C17.R2", "split_in_two_random returns two numbers that sum to the input, lower first", minimum=2)
    f = prog.func("problems", "split_in_two_random")

    def body(it: Interp):
        def uniform(it2, path, args, kwargs):
            return Num(("sym", "u"))
        it.hooks["ext:random.uniform"] = uniform
        it.hooks["ext:random.random"] = uniform

        def randrange(it2, path, args, kwargs):
            # randrange(stop) / randrange(start, stop) / randint(a, b): a symbol within the range; an empty range raises
            lo = 0 if len(args) == 1 else args[0]
            hi = args[0] if len(args) == 1 else args[1]
            tl, th = it2.to_term(lo), it2.to_term(hi)
            if tl is None or th is None or len(args) > 2:
                raise Unsupported(f"{path}{args!r}")
            inclusive = path.endswith("randint")
            width = ("sub", th, tl)
            if not it2.sign_query(width, frozenset(["pos", "zero"] if inclusive else ["pos"]), f"non-empty range {path}"):
                raise AbsRaise("ValueError", it2.site, "empty range for randrange()")
            it2.draw_n = getattr(it2, "draw_n", 0) + 1
            r = ("sym", f"r{it2.draw_n}")
            it2.assume_sign(("sub", r, tl), frozenset(["zero", "pos"]))
            it2.assume_sign(("sub", th, r), frozenset(["zero", "pos"] if inclusive else ["pos"]))
            return Num(r)
        it.hooks["ext:random.randrange"] = randrange
        it.hooks["ext:random.randint"] = randrange
        v = Num(("sym", "value"))
        it.assume_sign(("sym", "value"), frozenset(["zero", "pos"]))   # a count of terms
        return it.call_function(f, [v], {})

    for p in explore(prog, body, {"max_updepth": 0}):
        it = p.interp
        label = f"split_in_two_random: {p.cond or 'single path'}"
        if p.outcome == "raise":
            chk.fail("C17.R2", "C17.R2:split:raise", label, f"raises {p.exc}", where=f.where)
            continue
        ok = False
        why = f"returns {p.value!r}"
        if isinstance(p.value, Tup) and len(p.value.items) == 2:
            a, b = (it.to_term(x) for x in p.value.items)
            if a is not None and b is not None:
                ok = A.equal_nf(("add", a, b), ("sym", "value"), it.eq_subst)
                why = f"{A.term_str(a)} + {A.term_str(b)} != value"
                if ok and not it.sign_query(("sub", b, a), frozenset(["zero", "pos"]), "higher>=lower"):
                    ok, why = False, "lower > higher"
        chk.verdict(ok, "C17.R2", "C17.R2:split", label, "" if ok else why, where=f.where)


# --------------------------------------------------------------------------- R5 like-term pair
def run_like_pair(chk: Check, prog: Program) -> None:
    chk.rule("C17.R5", "the two promised like terms carry the same variable and the same exponent draw", minimum=8)
    mod = prog.module("problems")
    targets = [("gen_combine_terms_in_place", {"min_terms": 4, "max_terms": 4}),
               ("gen_commute_haystack", {"min_terms": 4, "max_terms": 4}),
               ("gen_move_around_blockers_one", {"number_blockers": 2}),
               ("gen_move_around_blockers_two", {"number_blockers": 1})]
    for name, base in targets:
        if name not in mod.functions:
            raise AnalysisError(f"generator {name} vanished")
        f = mod.functions[name]
        variants = [dict(base)]
        params = {a.arg for a in f.node.args.args + f.node.args.kwonlyargs}
        if "powers" in params:
            variants = [dict(base, powers=True), dict(base, powers=False)]
        if "powers_probability" in params:
            variants = [dict(base, powers_probability=0.5)]
        for kw in variants:
            def body(it: Interp, f=f, kw=kw):
                it.draws = 0

                def draw(tag):
                    it.draws += 1
                    return Opaque(f"{tag}#{it.draws}", truthy=True)

                def h_randint(it2, path, args, kwargs):
                    if all(isinstance(a, int) for a in args) and args[0] == args[1]:
                        return args[0]
                    if all(isinstance(a, int) for a in args) and it2.call_stack and it2.call_stack[-1] in (
                            "gen_combine_terms_in_place", "gen_commute_haystack"):
                        return args[0]
                    return draw("int")
                it.hooks["ext:random.randint"] = h_randint
                it.hooks["ext:random.shuffle"] = lambda it2, path, args, kwargs: None
                it.hooks["ext:random.choice"] = lambda it2, path, args, kwargs: args[0].items[0]

                def h_rand_bool(it2, info, args, kwargs):
                    pc = args[0] if args else kwargs.get("percent_chance", 50)
                    if isinstance(pc, (int, float)):
                        if pc >= 100:
                            return True
                        if pc <= 0:
                            return False
                    return it2.choose(2, f"coin#{len(it2.decisions)}", ["heads", "tails"]) == 0
                it.hooks["mathy_core/problems.py:rand_bool"] = h_rand_bool
                it.hooks["mathy_core/problems.py:rand_number"] = lambda it2, info, args, kwargs: draw("num")
                it.hooks["mathy_core/problems.py:rand_var"] = lambda it2, info, args, kwargs: draw("var")

                def h_get_rand_vars(it2, info, args, kwargs):
                    n = args[0]
                    if not isinstance(n, int):
                        return NotImplemented   # not a literal count (e.g. swapped arguments): interpret the real function
                    return Lst([draw("var") for _ in range(n)])
                it.hooks["mathy_core/problems.py:get_rand_vars"] = h_get_rand_vars

                def h_split(it2, info, args, kwargs):
                    n = args[0]
                    if not isinstance(n, int):
                        raise Unsupported("symbolic split")
                    return Tup((n // 2, n - n // 2))
                it.hooks["mathy_core/problems.py:split_in_two_random"] = h_split
                return it.call_function(f, [], dict(kw))

            for p in explore(prog, body, {"max_updepth": 0, "max_steps": 40000, "budget_soft": True, "time_budget": 30},
                             max_paths=3000):
                it = p.interp
                label = f"{name}({', '.join(f'{k}={v}' for k, v in kw.items())}) :: {p.cond[-120:]}"
                key = f"C17.R5:{name}"
                if p.outcome == "bound":
                    chk.undecided("C17.R5", key + ":bound", label, p.note, f.where)
                    continue
                if p.outcome == "raise":
                    chk.fail("C17.R5", key + ":raise", label, f"raises {p.exc}", where=f.where)
                    continue
                if not (isinstance(p.value, Tup) and len(p.value.items) == 2):
                    chk.fail("C17.R5", key + ":shape", label, f"returns {p.value!r}", where=f.where)
                    continue
                text = p.value.items[0]
                flat = _flatten_render(text) if isinstance(text, Render) else [text]
                terms = split_terms(flat)
                by_var: Dict[str, List[tuple]] = {}
                for t in terms:
                    vs = [x[1] for x in t if isinstance(x, tuple) and x[0] == "opaque" and x[1].startswith("var#")]
                    for v in vs:
                        by_var.setdefault(v, []).append(t)
                pairs = {v: ts for v, ts in by_var.items() if len(ts) >= 2}
                probs = []
                if len(pairs) < 1:
                    probs.append("no variable occurs in two terms: the promised pair of like terms is missing")
                else:
                    good = False
                    for v, ts in pairs.items():
                        exps = [exponent_part(t, v) for t in ts]
                        if len(ts) == 2 and exps[0] == exps[1]:
                            good = True
                    if not good:
                        v, ts = next(iter(pairs.items()))
                        probs.append(f"the two terms in {v} carry different exponents: "
                                     f"{[render_str(t) for t in ts]}")
                chk.verdict(not probs, "C17.R5", key, label, "; ".join(probs),
                            witness={"text": render_str(flat), "path": p.cond[-300:]}, where=f.where)


def split_terms(flat: list) -> List[tuple]:
    terms: List[list] = [[]]
    for part in flat:
        if isinstance(part, str):
            buf = ""
            i = 0
            while i < len(part):
                if part[i:i + 3] == " + ":
                    if buf:
                        terms[-1].append(buf)
                    buf = ""
                    terms.append([])
                    i += 3
                    continue
                if part[i] in "()":
                    i += 1
                    continue
                buf += part[i]
                i += 1
            if buf:
                terms[-1].append(buf)
        else:
            terms[-1].append(part)
    return [tuple(t) for t in terms if t]


def exponent_part(term: tuple, var: str) -> tuple:
    out = []
    seen = False
    for x in term:
        if isinstance(x, tuple) and x[0] == "opaque" and x[1] == var:
            seen = True
            continue
        if seen:
            out.append(x)
    return tuple(out)


def render_str(parts) -> str:
    return "".join(p if isinstance(p, str) else f"<{p[1]}>" for p in parts)


def run(chk: Check) -> None:
    prog = program(chk)
    chk.technique = "interval analysis on generator parameters; symbolic interpretation of split_in_two_random; literal " \
                    "alphabet extraction; abstract interpretation of the like-term generators with random draws as symbols"
    chk.explanation = (
        "Decides only the clauses that are arithmetic on literals or dataflow over random draws: (R1) for every "
        "get_rand_vars call whose count follows from defaults, the largest request fits the variable pool minus the "
        "exclusions (gen_combine_terms_in_place: known finding); (R2) split_in_two_random returns (lower, higher) with "
        "lower + higher == value on every path; (R3) every literal character of the generators' format strings, the "
        "operator list and the variable pools is in the tokenizer's alphabet; (R4) complexity intervals under defaults are "
        "positive; (R5) in gen_combine_terms_in_place, gen_commute_haystack and gen_move_around_blockers_one/two - "
        "interpreted with every random number / variable as a fresh symbol and every coin flip forked - exactly two terms "
        "carry the focus variable and their exponent text is the same draw; (R7) gen_simplify_multiple_terms (term counts 2-4, "
        "thorough 2-6) emits, on every path of its coin flips and small integer draws, two terms with the same variable draw "
        "and the same exponent draw. NOT decided (runtime quantities no static "
        "argument in reach bounds): that the generated text parses, that has_like_terms() agrees, behaviour for arbitrary "
        "seeds beyond the forked coin flips, the probabilistic retry bound, parameters without defaults, the non-pretty "
        "number mode's number text.")
    chk.not_decided = ["text the parser accepts", "has_like_terms agrees", "retry-loop probability", "non-default parameters"]
    chk.assumptions = ["default / documented parameter values", "term counts fixed to 4 for the like-pair interpretation"]
    run_pool(chk, prog)
    run_split(chk, prog)
    run_alphabet(chk, prog)
    run_complexity(chk, prog)
    run_like_pair(chk, prog)
    run_text(chk, prog)
    run_like_terms_promise(chk, prog)
    run_rand_vars(chk, prog)
    # contracts of other parts of the library this check takes for granted (summaries, token model, reference grammar):
    # the clauses that check the source against them, replayed under this property (props/contracts.py)
    from .contracts import run_contracts
    run_contracts(chk, prog, ['tokenizer', 'parser'])
    chk.max_undecided = 0


# --------------------------------------------------------------------------- R7 promised like terms among the terms
def run_rand_vars(chk: Check, prog: Program) -> None:
    """get_rand_vars itself (the generators above take it by this contract: n distinct fresh variables, none excluded).
    Draws of rand_var are symbolic identifiers; `x in exclude_vars` / set insertion fork on their equality.  On every
    returning path the result must have the requested length, and every result must be *known* different from every
    excluded variable and from every other result (a pair the path says nothing about can be the same letter)."""
    from sa.absint import Ident, PathInfeasible
    chk.rule("C17.R8", "get_rand_vars(n, exclude): n results, pairwise distinct, none of them excluded, drawn from the pool "
             "the caller asked for (n <= 3, up to 2 excluded variables, draw sequences of up to n+2 draws)", minimum=30)
    grv = prog.func("problems", "get_rand_vars")
    pm = prog.module("problems")
    try:
        pool = const_fold(prog, pm, pm.assigns["variables"]) if "variables" in pm.assigns else None
    except Exception:  # noqa: BLE001 - the pool is only used to pick concrete exclusions
        pool = None
    concrete = []
    if isinstance(pool, (list, tuple)) and len(pool) >= 4 and all(isinstance(x, str) for x in pool):
        # concrete exclusions: neighbours in the pool, the two ends, one in the middle
        concrete = [(pool[0], pool[1]), (pool[-2], pool[-1]), (pool[0], pool[2]), (pool[1],), (pool[2], pool[3], pool[4])]
    for n in (2, 1, 3):     # the concrete exclusions first: they stay cheap whatever the implementation iterates over
        for nex in (concrete if n == 2 else []) + [None, 0, 1, 2]:
            for common in (False, True):
                def body(it: Interp, n=n, nex=nex, common=common):
                    it.k = 0
                    seen_flags = []

                    def h(it2, info, args, kwargs):
                        it.k += 1
                        if it.k > n + 2:
                            raise PathInfeasible()    # exploration bound on the number of rejected draws
                        seen_flags.append(args[0] if args else kwargs.get("common_variables", False))
                        return Ident(f"d{it.k}")
                    it.hooks["mathy_core/problems.py:rand_var"] = h
                    it.hooks["ext:random.shuffle"] = lambda it2, path, args, kwargs: None
                    sampled = []

                    def h_sample(it2, path, args, kwargs):
                        # random.sample(population, k): any k distinct members can come back - the contract holds iff no
                        # member of the population is excluded
                        pop = args[0]
                        k = args[1] if len(args) > 1 else kwargs.get("k")
                        if not isinstance(pop, Lst) or not isinstance(k, int):
                            raise Unsupported("random.sample on an abstract population")
                        if k > len(pop.items):
                            raise AbsRaise("ValueError", it2.site, "Sample larger than population")
                        sampled.append(list(pop.items))
                        return Lst(list(pop.items[:k]))
                    it.hooks["ext:random.sample"] = h_sample
                    if isinstance(nex, tuple):
                        ex = Lst(list(nex))
                    else:
                        ex = None if nex is None else Lst([Ident(f"e{i}") for i in range(nex)])
                    kw = {"common_variables": True} if common else {}
                    out = it.call_function(grv, [n, ex], kw)
                    probs = []
                    if not isinstance(out, Lst):
                        return [f"returns {out!r}, not a list"]
                    items = list(out.items)
                    if len(items) != n:
                        probs.append(f"{len(items)} variables returned for a request of {n}")

                    def known_distinct(a, b):
                        if not (isinstance(a, Ident) and isinstance(b, Ident)):
                            return a != b
                        ra, rb = it.ident_find(a.name), it.ident_find(b.name)
                        return ra != rb and frozenset([ra, rb]) in it.ident_diseq
                    for popl in sampled:
                        for a in popl:
                            for e in (ex.items if ex is not None else []):
                                if not known_distinct(a, e):
                                    probs.append(f"result can be the excluded variable {e!r}: it is still in the population the "
                                                 f"results are sampled from")
                    for i, a in enumerate(items):
                        for e in (ex.items if ex is not None else []):
                            if not known_distinct(a, e):
                                probs.append(f"result {a!r} can be the excluded variable {e!r}: nothing on this path tells them apart")
                        for b in items[i + 1:]:
                            if not known_distinct(a, b):
                                probs.append(f"results {a!r} and {b!r} can be the same variable")
                    if any(fl is not common for fl in seen_flags):
                        probs.append(f"rand_var drawn with common_variables={seen_flags} for a request with common_variables={common}")
                    return probs
                label0 = f"get_rand_vars({n}, {'None' if nex is None else 'exclude ' + (repr(list(nex)) if isinstance(nex, tuple) else str(nex))}{', common_variables=True' if common else ''})"
                for p in explore(prog, body, {"max_updepth": 0}, max_paths=4000):
                    label = f"{label0} :: {p.cond[-160:] or 'first draws accepted'}"
                    if p.outcome == "return":
                        probs = p.value
                        chk.verdict(not probs, "C17.R8", "C17.R8:get_rand_vars" + (":" + probs[0].split(":")[0][:60] if probs else ""),
                                    label, "; ".join(probs[:3]), witness={"n": n, "excluded": nex, "path": p.cond[-300:]},
                                    where=grv.where)
                    elif p.outcome == "raise" and p.exc == "ValueError":
                        chk.fail("C17.R8", "C17.R8:get_rand_vars:raises", label,
                                 f"raises {p.exc} although at most {n + 2} draws were made and the pool is not exhausted: {p.note}",
                                 witness={"n": n, "excluded": nex, "path": p.cond[-300:]}, where=grv.where)
                    else:
                        chk.undecided("C17.R8", f"C17.R8:{label0}", label, f"{p.outcome} {p.exc or p.note}", grv.where)


def run_like_terms_promise(chk: Check, prog: Program) -> None:
    """gen_simplify_multiple_terms promises 'a polynomial problem with like terms that need to be combined': on every path
    of the random choices (term counts 2..4, thorough ..6) two of the emitted terms carry the same variable draw and the
    same exponent draw.  Shuffling does not matter (existence is order independent); the operators between terms are
    draws and delimit the terms."""
    chk.rule("C17.R7", "gen_simplify_multiple_terms: two of the emitted terms are the same variable draw with the same "
             "exponent draw, on every path of the random choices", minimum=30)
    mod = prog.module("problems")
    name = "gen_simplify_multiple_terms"
    if name not in mod.functions:
        raise AnalysisError(f"generator {name} vanished")
    f = mod.functions[name]
    counts = (2, 3, 4) if chk.tier == "quick" else (2, 3, 4, 5, 6)
    for num_terms in counts:
        def body(it: Interp, num_terms=num_terms):
            _install_generator_model(it, False)
            return it.call_function(f, [], {"num_terms": num_terms})
        n_paths = 0
        seen_texts = set()
        for p in explore(prog, body, {"max_updepth": 0, "max_steps": 60000, "budget_soft": True, "time_budget": 60},
                         max_paths=20000):
            it = p.interp
            n_paths += 1
            label = f"{name}(num_terms={num_terms}) :: {p.cond[-140:]}"
            key = f"C17.R7:{name}"
            if p.outcome == "bound":
                chk.undecided("C17.R7", key + ":budget", label, p.note, f.where)
                continue
            if p.outcome == "raise":
                # raising is R6's business (reported there); nothing is promised about a text that was not produced
                continue
            if not (isinstance(p.value, Tup) and len(p.value.items) == 2):
                continue
            text = p.value.items[0]
            flat = _flatten_render(text) if isinstance(text, Render) else [text]
            shown = render_str(flat)
            if shown in seen_texts:
                continue
            seen_texts.add(shown)
            terms: List[list] = [[]]
            for part in flat:
                if isinstance(part, tuple) and part[0] == "opaque" and part[1].startswith("op#"):
                    terms.append([])
                elif isinstance(part, str):
                    # a literal operator spelled out in a format string delimits terms as well
                    buf = part
                    for lit in (" + ", " - "):
                        buf = buf.replace(lit, "\0")
                    pieces = buf.split("\0")
                    for j, piece in enumerate(pieces):
                        if j:
                            terms.append([])
                        if piece.strip(" ()"):
                            terms[-1].append(piece.strip(" ()"))
                else:
                    terms[-1].append(part)
            sigs = []
            for t in terms:
                vs = [x[1] for x in t if isinstance(x, tuple) and x[0] == "opaque" and x[1].startswith("var#")]
                if len(vs) == 1:
                    sigs.append((vs[0], exponent_part(tuple(t), vs[0])))
            dup = len(sigs) != len(set(sigs))
            chk.verdict(dup, "C17.R7", key, label + f" -> {shown}",
                        "" if dup else f"no two terms of {shown!r} share variable and exponent: the promised like terms are missing "
                        f"(terms: {[render_str(t) for t in terms]})",
                        witness={"text": shown, "num_terms": num_terms, "path": p.cond[-300:]}, where=f.where)
        chk.analysed[f"like_terms_promise_paths_{num_terms}"] = n_paths


# --------------------------------------------------------------------------- R6 generated text is derivable
def _install_generator_model(it: Interp, negative_numbers: bool) -> None:
    """Random draws of the generators: coin flips and small integer ranges are forked, numbers / variables / operators /
    exponents are symbols tagged with their kind and a serial number (the same draw reused is the same symbol)."""
    it.draws = 0

    def draw(tag):
        it.draws += 1
        return Opaque(f"{tag}#{it.draws}", truthy=True)

    def h_randint(it2, path, args, kwargs):
        if all(isinstance(a, int) for a in args):
            lo, hi = args
            if lo > hi:
                raise AbsRaise("ValueError", it2.site, "empty range for randrange()")
            if hi - lo <= 5:
                return lo + it2.choose(hi - lo + 1, f"randint({lo},{hi})#{len(it2.decisions)}",
                                       [str(x) for x in range(lo, hi + 1)])
        return draw("int")
    it.hooks["ext:random.randint"] = h_randint

    def h_randrange(it2, path, args, kwargs):
        if all(isinstance(a, int) for a in args) and 1 <= len(args) <= 2:
            lo, hi = (0, args[0]) if len(args) == 1 else args
            return h_randint(it2, path, [lo, hi - 1], kwargs)
        return draw("int")
    it.hooks["ext:random.randrange"] = h_randrange
    it.hooks["ext:random.shuffle"] = lambda it2, path, args, kwargs: None
    it.hooks["ext:random.uniform"] = lambda it2, path, args, kwargs: 0.5
    it.hooks["ext:random.random"] = lambda it2, path, args, kwargs: 0.5

    def h_choice(it2, path, args, kwargs):
        items = args[0].items
        return items[it2.choose(len(items), f"choice#{len(it2.decisions)}")]
    it.hooks["ext:random.choice"] = h_choice

    def h_rand_bool(it2, info, args, kwargs):
        pc = args[0] if args else kwargs.get("percent_chance", 50)
        if isinstance(pc, (int, float)):
            if pc >= 100:
                return True
            if pc <= 0:
                return False
        return it2.choose(2, f"coin#{len(it2.decisions)}", ["heads", "tails"]) == 0
    it.hooks["mathy_core/problems.py:rand_bool"] = h_rand_bool
    it.hooks["mathy_core/problems.py:rand_number"] = lambda it2, info, args, kwargs: draw("neg" if negative_numbers else "num")
    it.hooks["mathy_core/problems.py:rand_var"] = lambda it2, info, args, kwargs: draw("var")
    it.hooks["mathy_core/problems.py:rand_op"] = lambda it2, info, args, kwargs: draw("op")

    def h_maybe_number(it2, info, args, kwargs):
        pc = args[0] if args else kwargs.get("percent_chance", 80)
        or_else = args[1] if len(args) > 1 else kwargs.get("or_else", "")
        if isinstance(pc, (int, float)) and pc >= 100:
            return draw("neg" if negative_numbers else "num")
        if (isinstance(pc, (int, float)) and pc <= 0) or or_else != "":
            return NotImplemented
        return draw("optneg" if negative_numbers else "optnum")
    it.hooks["mathy_core/problems.py:maybe_number"] = h_maybe_number

    def h_maybe_power(it2, info, args, kwargs):
        pc = args[0] if args else kwargs.get("percent_chance", 80)
        or_else = args[2] if len(args) > 2 else kwargs.get("or_else", "")
        if isinstance(pc, (int, float)) and pc >= 100:
            return draw("pow")
        if isinstance(pc, (int, float)) and pc <= 0:
            return or_else
        if or_else != "":
            return NotImplemented
        return draw("optpow")
    it.hooks["mathy_core/problems.py:maybe_power"] = h_maybe_power

    def h_get_rand_vars(it2, info, args, kwargs):
        n = args[0]
        if not isinstance(n, int):
            return NotImplemented   # not a literal count (e.g. swapped arguments): interpret the real function
        return Lst([draw("var") for _ in range(n)])
    it.hooks["mathy_core/problems.py:get_rand_vars"] = h_get_rand_vars


def run_text(chk: Check, prog: Program) -> None:
    """Every random choice is forked (coin flips, small integer ranges) or kept as a symbol (numbers, variables); the text
    produced on each path is split into tokens (literals by the specification tokenizer, draws as Constant / Variable /
    signed Constant) and must be derivable in the documented grammar (reference parser of C03)."""
    from sa.parsecases import RefParser, Reject
    chk.rule("C17.R6", "generated text is derivable in the documented grammar on every path of the random choices "
             "(small term counts)", minimum=50)
    mod = prog.module("problems")
    cases = [("gen_simplify_multiple_terms", {"num_terms": 2})] + \
            ([("gen_simplify_multiple_terms", {"num_terms": 3})] if chk.tier == "thorough" else []) + [
        ("gen_binomial_times_binomial", {}), ("gen_binomial_times_monomial", {}),
             ("gen_combine_terms_in_place", {"min_terms": 3, "max_terms": 3}),
             ("gen_commute_haystack", {"min_terms": 3, "max_terms": 3}),
             ("gen_move_around_blockers_one", {"number_blockers": 1}), ("gen_move_around_blockers_two", {"number_blockers": 1})]
    cases = [c for c in cases if c]
    # every boolean option of a generator, flipped one at a time (read off the signature)
    for name, kw in list(cases):
        fdef = mod.functions[name].node if name in mod.functions else None
        if fdef is None or (name == "gen_simplify_multiple_terms" and kw.get("num_terms") != 2):
            continue
        params = list(fdef.args.args) + list(fdef.args.kwonlyargs)
        defaults = [None] * (len(fdef.args.args) - len(fdef.args.defaults)) + list(fdef.args.defaults) + list(fdef.args.kw_defaults)
        for a_, d_ in zip(params, defaults):
            if isinstance(d_, ast.Constant) and isinstance(d_.value, bool) and a_.arg not in kw:
                cases.append((name, dict(kw, **{a_.arg: not d_.value})))
    OPMAP = {"+": "Plus", "-": "Minus", "*": "Multiply", "/": "Divide", "^": "Exponent", "(": "OpenParen", ")": "CloseParen",
             "=": "Equal", "!": "Factorial"}
    for name, kw in cases:
        if name not in mod.functions:
            raise AnalysisError(f"generator {name} vanished")
        f = mod.functions[name]
        for negative_numbers in (False, True):
            def body(it: Interp, f=f, kw=kw, negative_numbers=negative_numbers):
                _install_generator_model(it, negative_numbers)
                return it.call_function(f, [], dict(kw))

            n_paths = 0
            for p in explore(prog, body, {"max_updepth": 0, "max_steps": 60000, "budget_soft": True, "time_budget": 40},
                             max_paths=6000):
                it = p.interp
                n_paths += 1
                label = f"{name}({', '.join(f'{k}={v}' for k, v in kw.items())}) {'negative numbers' if negative_numbers else 'pretty numbers'} :: {p.cond[-100:]}"
                key = f"C17.R6:{name}"
                if p.outcome == "bound":
                    chk.undecided("C17.R6", key + ":budget", label, p.note, f.where)
                    continue
                if p.outcome == "raise":
                    chk.fail("C17.R6", key + f":raises:{p.exc.exc}", label, f"generator raises {p.exc}",
                             witness={"path": p.cond[-300:]}, where=f.where)
                    continue
                if not (isinstance(p.value, Tup) and len(p.value.items) == 2):
                    chk.fail("C17.R6", key + ":shape", label, f"returns {p.value!r}", where=f.where)
                    continue
                text = p.value.items[0]
                flat = _flatten_render(text) if isinstance(text, Render) else [text]
                slots: List[List[List[str]]] = []
                bad_char = None
                for part in flat:
                    if isinstance(part, str):
                        i = 0
                        while i < len(part):
                            ch = part[i]
                            if ch in " \t":
                                i += 1
                            elif ch.isdigit() or ch == ".":
                                j = i
                                while j < len(part) and (part[j].isdigit() or part[j] == "."):
                                    j += 1
                                slots.append([["Constant"]])
                                i = j
                            elif ch.isalpha():
                                slots.append([["Variable"]])
                                i += 1
                            elif ch in OPMAP:
                                slots.append([[OPMAP[ch]]])
                                i += 1
                            else:
                                bad_char = ch
                                break
                    else:
                        tag = part[1].split("#")[0]
                        alts = {"var": [["Variable"]], "num": [["Constant"]], "neg": [["Constant"], ["Minus", "Constant"]],
                                "optnum": [[], ["Constant"]], "optneg": [[], ["Constant"], ["Minus", "Constant"]],
                                "pow": [["Exponent", "Constant"]], "optpow": [[], ["Exponent", "Constant"]],
                                "op": [["Plus"], ["Minus"], ["Multiply"]], "int": [["Constant"]]}.get(tag)
                        if alts is None:
                            bad_char = f"<{part[1]}>"
                        else:
                            slots.append(alts)
                    if bad_char:
                        break
                shown = render_str(flat)
                if bad_char:
                    chk.fail("C17.R6", key + f":char:{bad_char!r}", label, f"text {shown!r} contains {bad_char!r}",
                             witness={"text": shown}, where=f.where)
                    continue
                import itertools as _it
                total = 1
                for sl in slots:
                    total *= len(sl)
                combos = _it.product(*slots) if total <= 20000 else _it.islice(_it.product(*slots), 20000)
                rejected = None
                for combo in combos:
                    seq = [t for alt in combo for t in alt]
                    toks = [(t, i) for i, t in enumerate(seq)]
                    try:
                        RefParser(toks).parse()
                    except Reject as r:
                        rejected = (seq, str(r))
                        break
                if rejected is None:
                    chk.ok("C17.R6", key, label + f" -> {shown} ({min(total, 20000)} instantiations)", where=f.where)
                else:
                    chk.fail("C17.R6", key + ":not-derivable", label,
                             f"the generated text {shown!r} has an instantiation that is not derivable in the documented "
                             f"grammar ({rejected[1]}): the parser rejects it",
                             witness={"text": shown, "tokens": rejected[0], "path": p.cond[-300:]}, where=f.where)
            chk.analysed[f"text_paths_{name}_{kw}_{negative_numbers}"] = n_paths
