"""C12 - parser results do not depend on call history.

R1 history scenarios: for every scenario of parse / tokenize / clear_cache calls (incl. failing parses, consumed
   hand-outs and whitespace-variant texts) and every token sequence, the last call on the used parser returns what a
   fresh parser returns; token lists handed out are never the cached object.
R5 stateless tokenizer: Tokenizer methods other than __init__ never store to self; Token attributes are stored only
   in Token.__init__ (type-resolved).
"""
from __future__ import annotations

import ast
from typing import List

from sa.model import Program, unparse
from sa.parsecases import SCENARIOS, analyse_scenarios
from sa.report import Check, REPO
from sa.typelite import expr_class, local_types
from .common import program
from .c10 import run_sticky


def run_r5(chk: Check, prog: Program) -> None:
    chk.rule("C12.R5", "tokenizer keeps no state between calls; tokens are immutable after construction", minimum=5)
    tk = prog.cls("Tokenizer")
    MUTATORS = {"append", "pop", "clear", "update", "insert", "extend", "remove", "setdefault", "sort", "reverse", "add"}

    def rooted_at_self(e: ast.expr) -> bool:
        while isinstance(e, (ast.Attribute, ast.Subscript)):
            e = e.value
        return isinstance(e, ast.Name) and e.id == "self"

    def stores_to_self(fn: ast.FunctionDef) -> List[str]:
        out = []
        for n in ast.walk(fn):
            tg = n.targets if isinstance(n, ast.Assign) else ([n.target] if isinstance(n, (ast.AugAssign, ast.AnnAssign)) else [])
            for t in tg:
                for tt in (t.elts if isinstance(t, (ast.Tuple, ast.List)) else [t]):
                    if isinstance(tt, (ast.Attribute, ast.Subscript)) and rooted_at_self(tt):
                        out.append(unparse(tt))
            if isinstance(n, ast.Delete):
                for t in n.targets:
                    if isinstance(t, (ast.Attribute, ast.Subscript)) and rooted_at_self(t):
                        out.append("del " + unparse(t))
        return out

    for name, m in tk.methods.items():
        stores = stores_to_self(m.node)
        undecided = []
        env = None
        # calls on objects kept on the tokenizer: self.<attr>.<method>(...)
        for n in ast.walk(m.node):
            if isinstance(n, ast.Call) and isinstance(n.func, ast.Attribute) and isinstance(n.func.value, (ast.Attribute, ast.Subscript)) \
                    and rooted_at_self(n.func.value):
                meth = n.func.attr
                if meth in MUTATORS:
                    stores.append(unparse(n.func) + "()")
                    continue
                if env is None:
                    env = local_types(prog, m)
                rc = expr_class(prog, m, n.func.value, env)
                target = prog.find_method(rc, meth) if rc else None
                if target is not None:
                    inner = stores_to_self(target.node)
                    if inner:
                        stores.append(f"{unparse(n.func)}() -> {target.qualname} stores {inner[:3]}")
                elif meth not in ("get", "keys", "values", "items", "copy", "index", "count", "startswith", "endswith", "lower"):
                    undecided.append(unparse(n.func))
        key = f"C12.R5:Tokenizer.{name}"
        if name == "__init__" or (not stores and not undecided):
            chk.ok("C12.R5", key, f"Tokenizer.{name} stores {stores or 'nothing'} on itself", where=m.where)
        elif stores:
            # inventory, not a verdict (a stored statistic would be harmless): whether a later tokenize() depends on it is
            # decided by R6, which interprets two calls on one tokenizer against a fresh one
            chk.info("C12.R5", key + ":" + stores[0].split("(")[0], f"Tokenizer.{name} modifies state kept on the tokenizer: {stores}",
                     "the tokenizer writes state that outlives the call (judged through R6)", m.where)
        else:
            chk.info("C12.R5", key, f"Tokenizer.{name} calls {undecided} on an object kept on the tokenizer",
                     "callee not resolved", m.where)
    for f in prog.all_functions():
        env = None
        for n in ast.walk(f.node):
            tg = n.targets if isinstance(n, ast.Assign) else ([n.target] if isinstance(n, (ast.AugAssign, ast.AnnAssign)) else [])
            for t in tg:
                if isinstance(t, ast.Attribute) and t.attr in ("value", "type"):
                    if env is None:
                        env = local_types(prog, f)
                    rc = expr_class(prog, f, t.value, env)
                    if rc == "Token":
                        key = f"C12.R5:{f.qualname}:{unparse(t)}"
                        if f.qualname == "Token.__init__":
                            chk.ok("C12.R5", key, f"{unparse(n)} in {f.qualname}", where=f.where)
                        else:
                            chk.info("C12.R5", key, f"{unparse(n)} in {f.qualname}",
                                     "a Token is modified after construction: cached token lists share Token objects with every "
                                     "list handed out (judged through the history scenarios of R1, which compare token values)",
                                     f.where)


def run_concrete_history(chk: Check, prog: Program, rid: str = "C12.R7", focus: str = None) -> None:
    """Call histories over *related* texts (one text is a side, a prefix or the whole of another), with the real tokenizer
    and parser interpreted on concrete strings: the tree the last call returns must be the tree a fresh parser returns,
    its root must have no parent and its links must be consistent - results of earlier calls must not be linked into
    later ones."""
    import itertools
    from sa.absint import AbsRaise, Interp, Node, explore
    from sa.heapterm import HeapView
    from sa.summaries import Summaries
    chk.rule(rid, "histories over related concrete texts (sides / prefixes of one another, a text that fails to parse): the "
             "last parse equals a fresh parser's - same tree or same exception -, is a root, and has consistent links",
             minimum=100 if focus is None else 20)
    S = Summaries(prog)
    pcls = prog.cls("ExpressionParser")
    m_parse = prog.func("parser", "ExpressionParser.parse")
    # ... and a text together with the printed form of its tree, where that form reads back as a different (equal-valued)
    # tree: "-xy" is -(x * y) and prints "-x * y", which reads as (-x) * y
    # ... and a text the parser rejects ("x +": the tokens are kept, no tree is), before and after texts it accepts
    texts = ["x", "y", "x = y", "x + 1", "x + 1 = y", "y = x + 1", "2x", "-x", "x+1=x+1", "-xy", "-x * y", "x +"]
    seqs = [s_ for s_ in itertools.permutations(texts, 2)] + [(a, b, a) for a, b in itertools.permutations(texts, 2)]
    if focus is not None:
        seqs = [s_ for s_ in seqs if focus in s_]
    elif chk.tier == "quick":
        seqs = [s_ for s_ in seqs if "=" in "".join(s_) or "-xy" in s_ or "x +" in s_]
    where = m_parse.where

    def audit(it, root_cid):
        probs = []
        cell = it.cells[root_cid]
        par = cell.cur.get("parent", cell.entry.get("parent"))
        if isinstance(par, Node):
            probs.append("the returned root has a parent: it was linked into another call's tree")
        stack, seen = [root_cid], set()
        while stack:
            c = stack.pop()
            if c in seen:
                probs.append("a node is reachable twice")
                break
            seen.add(c)
            for side in ("left", "right"):
                v = it.cells[c].cur.get(side, it.cells[c].entry.get(side))
                if isinstance(v, Node):
                    pv = it.cells[v.cid].cur.get("parent", it.cells[v.cid].entry.get("parent"))
                    if not (isinstance(pv, Node) and pv.cid == c):
                        probs.append(f"a {side} child's parent pointer does not point back")
                    stack.append(v.cid)
        return probs

    for seq in seqs:
        def body(it: Interp, seq=seq):
            used = it.instantiate(pcls, [], {})
            last = None
            for t in seq:
                try:
                    last = ("ok", it.call_function(m_parse, [used, t], {}))
                except AbsRaise as e:
                    last = ("raise", e.exc)
            fresh = it.instantiate(pcls, [], {})
            try:
                ref = ("ok", it.call_function(m_parse, [fresh, seq[-1]], {}))
            except AbsRaise as e:
                ref = ("raise", e.exc)
            return last, ref
        cfg = {"max_updepth": 0, "hooks": {k: v for k, v in S.hooks().items() if "clone" not in k}, "max_steps": 200000,
               "max_inline": 120}
        for p in explore(prog, body, cfg, max_paths=8):
            label = "parse " + " ; ".join(repr(t) for t in seq)
            if p.outcome != "return":
                chk.undecided(rid, f"{rid}:bound", label, f"{p.outcome} {p.exc or p.note}", where)
                continue
            it = p.interp
            (k1, v1), (k2, v2) = p.value
            probs = []
            if k1 != k2:
                probs.append(f"used parser: {k1} {v1!r}, fresh parser: {k2} {v2!r}")
            elif k1 == "raise":
                if v1 != v2:
                    probs.append(f"used parser raises {v1}, fresh parser raises {v2}")
            elif isinstance(v1, Node) and isinstance(v2, Node):
                hv = HeapView(it, S.optable)
                try:
                    if hv.shape(v1.cid, "cur") != hv.shape(v2.cid, "cur") or hv.term(v1.cid, "cur") != hv.term(v2.cid, "cur"):
                        probs.append(f"used parser returns {hv.shape(v1.cid, 'cur')}, a fresh parser {hv.shape(v2.cid, 'cur')}")
                except Exception as e:  # noqa: BLE001
                    probs.append(f"the returned tree cannot be read back: {e}")
                probs += audit(it, v1.cid)
            else:
                probs.append(f"parse returns {v1!r}")
            chk.verdict(not probs, rid, f"{rid}:ExpressionParser.parse:related-texts", label, "; ".join(probs),
                        witness={"calls": list(seq), "problems": probs}, where=where)


def run(chk: Check) -> None:
    prog = program(chk)
    chk.technique = "abstract interpretation of call-history scenarios on one parser object vs a fresh parser over symbolic " \
                    "token streams; effect rule for tokenizer/Token state"
    chk.explanation = (
        "Decides: in each of the history scenarios " + ", ".join(SCENARIOS) + " - interpreted from source with the "
        "tokenizer replaced by its contract (fresh Token objects of symbolic types per text; whitespace-variant texts "
        "get independent token sequences) over all token sequences of the bounded length, with first calls failing or "
        "succeeding - the last call returns on the long-lived parser exactly what it returns on a fresh parser (same "
        "exception class / structurally identical tree / same token sequence), and the token list handed out is not the "
        "cached list object; the tokenizer stores nothing on itself outside __init__ and Tokens are never modified after "
        "construction; histories of two or three parses over nine related concrete texts (one a side or prefix of another), "
        "with the real tokenizer and parser interpreted, end in the tree a fresh parser gives, rooted and with consistent "
        "links. Not decided: histories outside the listed scenario shapes (each is a template over all token "
        "sequences, not over all call sequences); node ids differ by history (excluded by 'structurally identical').")
    chk.assumptions = ["scenario templates", "token sequences of 2 (quick) / 3 (thorough) tokens per text"]
    scen = analyse_scenarios(str(REPO), 2 if chk.tier == "quick" else 3)
    chk.analysed["scenario_paths"] = len(scen)
    run_sticky(chk, scen, pid="C12", rid="R1", names=tuple(SCENARIOS))
    run_r5(chk, prog)
    run_tokenizer_history(chk, prog)
    run_concrete_history(chk, prog)
    # contracts of other parts of the library this check takes for granted (summaries, token model, reference grammar):
    # the clauses that check the source against them, replayed under this property (props/contracts.py)
    from .contracts import run_contracts
    run_contracts(chk, prog, ['tokenizer'])
    chk.exhaustive = True
    chk.max_undecided = 0


def run_tokenizer_history(chk: Check, prog: Program) -> None:
    """One Tokenizer object, two calls (the first may raise half-way): the second answer must equal a fresh tokenizer's."""
    from sa.absint import AbsRaise, Interp, Lst, Rec, SymChar, SymStr, explore
    chk.rule("C12.R6", "a tokenizer that served an earlier call (also one that raised) tokenizes like a fresh one", minimum=50)
    tok_cls = prog.cls("Tokenizer")
    m = prog.func("tokenizer", "Tokenizer.tokenize")
    alphabet = frozenset("4x+ $")

    def describe(it, v):
        if not isinstance(v, Lst):
            return repr(v)
        out = []
        for t in v.items:
            if isinstance(t, Rec):
                val = t.fields.get("value")
                if isinstance(val, SymChar):
                    val = f"<ch{val.cid}>"
                elif isinstance(val, SymStr):
                    val = "".join(x if isinstance(x, str) else f"<ch{x.cid}>" for x in val.items)
                out.append((val, t.fields.get("type")))
            else:
                out.append(repr(t))
        return out

    # short texts over digits / letters / operators / padding / an unsupported character, and longer ones over the letters
    # of the function name, another letter and an opening parenthesis (function calls, letter runs)
    fn_alphabet = frozenset("sgnx(")
    for n1, n2, alpha in ((1, 2, alphabet), (2, 2, alphabet), (4, 4, fn_alphabet), (5, 5, fn_alphabet)):
        def body(it: Interp, n1=n1, n2=n2, alpha=alpha):
            used = it.instantiate(tok_cls, [], {})
            first = [it.new_char(alpha) for _ in range(n1)]
            second = [it.new_char(alpha) for _ in range(n2)]
            try:
                it.call_function(m, [used, SymStr(first)], {})
                it.first = "returned"
            except AbsRaise as e:
                it.first = f"raised {e.exc}"
            try:
                a = ("ok", describe(it, it.call_function(m, [used, SymStr(second)], {})))
            except AbsRaise as e:
                a = ("raise", e.exc)
            fresh = it.instantiate(tok_cls, [], {})
            try:
                b = ("ok", describe(it, it.call_function(m, [fresh, SymStr(second)], {})))
            except AbsRaise as e:
                b = ("raise", e.exc)
            return a, b
        for p in explore(prog, body, {"max_updepth": 0, "time_budget": 120}, max_paths=20000):
            it = p.interp
            label = f"tokenize(len {n1}) [{getattr(it, 'first', '?')}] then tokenize(len {n2}): {p.cond[-160:]}"
            if p.outcome != "return":
                chk.undecided("C12.R6", "C12.R6:bound", label, f"{p.outcome} {p.exc or p.note}", m.where)
                continue
            a, b = p.value
            chk.verdict(a == b, "C12.R6", "C12.R6:Tokenizer.tokenize:history", label,
                        "" if a == b else f"used tokenizer gives {a}, a fresh tokenizer gives {b}",
                        witness={"first_call": getattr(it, "first", "?"), "used": repr(a)[:300], "fresh": repr(b)[:300],
                                 "path": p.cond[-300:]}, where=m.where)
