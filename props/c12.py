"""C12 - parser results do not depend on call history.

R1 history scenarios: for every scenario of parse / tokenize / clear_cache calls (incl. failing parses, consumed
   hand-outs and whitespace-variant texts) and every token sequence, the last call on the used parser returns what a
   fresh parser returns; token lists handed out are never the cached object.
R5 stateless tokenizer: Tokenizer methods other than __init__ never store to self; Token attributes are stored only
   in Token.__init__ (type-resolved).
"""
from __future__ import annotations

import ast
from typing import List

from sa.model import Program, unparse
from sa.parsecases import SCENARIOS, analyse_scenarios
from sa.report import Check, REPO
from sa.typelite import expr_class, local_types
from .common import program
from .c10 import run_sticky


def run_r5(chk: Check, prog: Program) -> None:
    chk.rule("C12.R5", "tokenizer keeps no state between calls; tokens are immutable after construction", minimum=5)
    tk = prog.cls("Tokenizer")
    for name, m in tk.methods.items():
        stores = []
        for n in ast.walk(m.node):
            tg = n.targets if isinstance(n, ast.Assign) else ([n.target] if isinstance(n, (ast.AugAssign, ast.AnnAssign)) else [])
            for t in tg:
                if isinstance(t, ast.Attribute) and isinstance(t.value, ast.Name) and t.value.id == "self":
                    stores.append(unparse(t))
                if isinstance(t, ast.Subscript) and unparse(t.value).startswith("self."):
                    stores.append(unparse(t))
        key = f"C12.R5:Tokenizer.{name}"
        if name == "__init__" or not stores:
            chk.ok("C12.R5", key, f"Tokenizer.{name} stores {stores or 'nothing'} on self", where=m.where)
        else:
            chk.fail("C12.R5", key + ":" + stores[0], f"Tokenizer.{name} stores {stores}",
                     "the tokenizer writes its own state during a call: later calls can depend on earlier ones",
                     witness={"stores": stores}, where=m.where)
    for f in prog.all_functions():
        env = None
        for n in ast.walk(f.node):
            tg = n.targets if isinstance(n, ast.Assign) else ([n.target] if isinstance(n, (ast.AugAssign, ast.AnnAssign)) else [])
            for t in tg:
                if isinstance(t, ast.Attribute) and t.attr in ("value", "type"):
                    if env is None:
                        env = local_types(prog, f)
                    rc = expr_class(prog, f, t.value, env)
                    if rc == "Token":
                        key = f"C12.R5:{f.qualname}:{unparse(t)}"
                        if f.qualname == "Token.__init__":
                            chk.ok("C12.R5", key, f"{unparse(n)} in {f.qualname}", where=f.where)
                        else:
                            chk.fail("C12.R5", key, f"{unparse(n)} in {f.qualname}",
                                     "a Token is modified after construction: cached token lists share Token objects "
                                     "with every list handed out", witness={"statement": unparse(n)}, where=f.where)


def run(chk: Check) -> None:
    prog = program(chk)
    chk.technique = "abstract interpretation of call-history scenarios on one parser object vs a fresh parser over symbolic " \
                    "token streams; effect rule for tokenizer/Token state"
    chk.explanation = (
        "Decides: in each of the history scenarios " + ", ".join(SCENARIOS) + " - interpreted from source with the "
        "tokenizer replaced by its contract (fresh Token objects of symbolic types per text; whitespace-variant texts "
        "get independent token sequences) over all token sequences of the bounded length, with first calls failing or "
        "succeeding - the last call returns on the long-lived parser exactly what it returns on a fresh parser (same "
        "exception class / structurally identical tree / same token sequence), and the token list handed out is not the "
        "cached list object; the tokenizer stores nothing on itself outside __init__ and Tokens are never modified after "
        "construction. Not decided: histories outside the listed scenario shapes (each is a template over all token "
        "sequences, not over all call sequences); node ids differ by history (excluded by 'structurally identical').")
    chk.assumptions = ["scenario templates", "token sequences of 2 (quick) / 3 (thorough) tokens per text"]
    scen = analyse_scenarios(str(REPO), 2 if chk.tier == "quick" else 3)
    chk.analysed["scenario_paths"] = len(scen)
    run_sticky(chk, scen, pid="C12", rid="R1", names=tuple(SCENARIOS))
    run_r5(chk, prog)
    chk.exhaustive = True
    chk.max_undecided = 0
