"""Shared helpers for the property modules."""
from __future__ import annotations

import json
import os
from typing import Any, Dict, List, Optional

from sa.model import Program
from sa.report import Check, REPO
from sa.rulecases import analyse_rules


def program(chk: Check) -> Program:
    prog = Program(REPO)
    problems = prog.language_guard()
    if problems:
        from sa.report import AnalysisError
        raise AnalysisError("language-level guard failed (abstract semantics would be wrong): " + "; ".join(problems[:5]))
    chk.analysed["repo"] = str(prog.repo)
    chk.analysed["modules"] = sorted(prog.modules)
    return prog


def value_equal_classes(prog: Program) -> List[str]:
    """Concrete node classes whose instances compare by something else than identity (a user-defined __eq__ / __ne__):
    tree primitives that compare nodes with == must be analysed with such nodes among the operands."""
    out = []
    for c in prog.classes.values():
        if prog.is_subclass(c.name, "BinaryTreeNode") and (prog.find_method(c.name, "__eq__") or prog.find_method(c.name, "__ne__")):
            if not any(prog.is_subclass(o.name, c.name) and o.name != c.name for o in prog.classes.values()):
                out.append(c.name)
    return sorted(out)


def rule_records(chk: Check) -> List[dict]:
    recs = analyse_rules(str(REPO), chk.tier)
    chk.analysed["rule_paths"] = len(recs)
    over = [r for r in recs if r["outcome"] == "budget"]
    if over:
        # not every case of these rules was explored: whatever the explored paths show is reported, the rest is undecided
        chk.rule(f"{chk.pid}.B0", "the case exploration of every rule finished within its budget", minimum=0)
        for r in over:
            chk.undecided(f"{chk.pid}.B0", f"{chk.pid}.B0:{r['rule']}:budget", f"{r['rule']}[{opts_str(r['opts'])}]", r["note"],
                          RULE_FILES.get(r["rule"], ""))
        recs = [r for r in recs if r["outcome"] != "budget"]
    return recs


def opts_str(o: dict) -> str:
    return ",".join(f"{k}={v}" for k, v in sorted(o.items())) or "-"


def case_label(r: dict) -> str:
    return f"{r['rule']}[{opts_str(r['opts'])}] on {r.get('before_shape', r.get('arg_shape'))} ({r.get('ctx')})"


RULE_FILES = {
    "AssociativeSwapRule": "mathy_core/rules/associative_swap.py",
    "BalancedMoveRule": "mathy_core/rules/balanced_move.py",
    "CommutativeSwapRule": "mathy_core/rules/commutative_swap.py",
    "ConstantsSimplifyRule": "mathy_core/rules/constants_simplify.py",
    "DistributiveFactorOutRule": "mathy_core/rules/distributive_factor_out.py",
    "DistributiveMultiplyRule": "mathy_core/rules/distributive_multiply_across.py",
    "MultiplicativeInverseRule": "mathy_core/rules/multiplicative_inverse.py",
    "RestateSubtractionRule": "mathy_core/rules/restate_subtraction.py",
    "VariableMultiplyRule": "mathy_core/rules/variable_multiply.py",
}


def where_rule(r: dict, fn: str = "apply_to") -> str:
    return f"{RULE_FILES.get(r['rule'], '?')}:{r['rule']}.{fn}"
