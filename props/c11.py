"""C11 - tokenizing is lossless, total and faithful to character classes.

Tokenizer.tokenize is interpreted (E3) on symbolic strings: every character is a *set* of code points (initially the
whole analysed alphabet) that the code's own comparisons split, so each path stands for all strings whose characters
lie in the refined sets.  Each path's token stream is validated against the specification tokenizer transcribed from
the property statement (translation validation of path summaries), for both padding modes:
 R1 token values reproduce the input up to the three normalisations / dropped padding; index accounting
 R2 operator & alias table, whitespace set, token types      R3 exactly one end marker, last
 R4 unsupported characters raise ValueError                  R5/R6 character classes, maximal munch, function names
"""
from __future__ import annotations

import itertools
from typing import Any, Dict, List, Optional, Tuple

from sa.absint import (AbsRaise, Cls, Dct, Interp, Lst, Rec, SymChar, SymStr, Unsupported, explore)
from sa.model import Program, const_fold
from sa.report import AnalysisError, Check
from .common import program

ASCII_LOWER = "abcdefghijklmnopqrstuvwxyz"
ASCII_UPPER = ASCII_LOWER.upper()
DIGITS = "0123456789"
WS = " \t\r\n"
OPS = {"+": ("+", "Plus"), "-": ("-", "Minus"), "–": ("-", "Minus"), "*": ("*", "Multiply"),
       "/": ("/", "Divide"), "^": ("^", "Exponent"), "!": ("!", "Factorial"), "(": ("(", "OpenParen"),
       "[": ("(", "OpenParen"), ")": (")", "CloseParen"), "]": (")", "CloseParen"), "=": ("=", "Equal")}
# code points outside Latin-1 that case mapping, isalpha()/isdigit() or NFKC-like reasoning could let through:
# en dash (supported), Arabic-Indic digit, full-width A and 1, minus sign, Kelvin sign (lower() is 'k'), long s (upper()
# is 'S'), dotless i (upper() is 'I'), Greek alpha, Roman numeral one
EXTRA = ["–", "٣", "Ａ", "é", "²", "−", "×", "\u212a", "\u017f", "\u0131", "\uff11", "\u03b1", "\u2160"]


# reduced alphabet for longer strings: the letters of the registered function name, one of them also in upper case, another
# letter, the exponent mark of scientific notation, a digit, the dot, two operators, padding and an unsupported character
SMALL_ALPHABET = "sgnNxE7.+- #"


def universe() -> frozenset:
    return frozenset([chr(i) for i in range(256)] + EXTRA)


def spec_class(ch: str) -> str:
    if ch in DIGITS:
        return "digit"
    if ch == ".":
        return "dot"
    if ch in ASCII_LOWER or ch in ASCII_UPPER:
        return "letter:" + (ch if ch in "sgn" else ("lower" if ch in ASCII_LOWER else "upper"))
    if ch in WS:
        return "ws:" + repr(ch)
    if ch in OPS:
        return "op:" + ch
    return "unsupported"


def spec_tokens(s: str, exclude_padding: bool, functions: List[str], types: Dict[str, int]):
    out: List[Tuple[str, int]] = []
    i = 0
    while i < len(s):
        c = s[i]
        if c in DIGITS or c == ".":
            j = i
            while j < len(s) and (s[j] in DIGITS or s[j] == "."):
                j += 1
            out.append((s[i:j], types["Constant"]))
            i = j
        elif c in ASCII_LOWER or c in ASCII_UPPER:
            j = i
            while j < len(s) and (s[j] in ASCII_LOWER or s[j] in ASCII_UPPER):
                j += 1
            run = s[i:j]
            if run in functions:
                out.append((run, types["Function"]))
            else:
                out.extend((ch, types["Variable"]) for ch in run)
            i = j
        elif c in WS:
            if not exclude_padding:
                out.append((c, types["Pad"]))
            i += 1
        elif c in OPS:
            out.append((OPS[c][0], types[OPS[c][1]]))
            i += 1
        else:
            return "ValueError"
    out.append(("", types["EOF"]))
    return out


def representatives(cur: frozenset, full: frozenset) -> List[str]:
    if cur == full:
        return ["7", "x", "+", " ", "#"]
    by: Dict[str, str] = {}
    for ch in sorted(cur):
        by.setdefault(spec_class(ch), ch)
    # one more member of the big classes to catch off-by-one range bounds
    extra = []
    for cls_name, members in (("digit", DIGITS), ("letter:lower", ASCII_LOWER), ("letter:upper", ASCII_UPPER)):
        inter = [m for m in members if m in cur]
        if inter:
            extra += [inter[0], inter[-1]]
    uns = sorted(ch for ch in cur if spec_class(ch) == "unsupported")
    for probe in ("/", ":", "@", "[", "`", "{", "é", "Ａ", "٣", "²", "\u212a", "\u017f", "\u0131", "\uff11", "\u03b1", "\u2160"):
        if probe in cur:
            extra.append(probe)
    return sorted(set(list(by.values()) + extra + uns[:2]))


def run_tokenize(chk: Check, prog: Program, length: int, alphabet: frozenset, tag: str, remap=None) -> None:
    """`remap` renames the rule ids (C03 re-uses this clause under its own rule id: reading text starts with tokenizing)."""
    remap = remap or (lambda rid: rid)
    tok_cls = prog.cls("Tokenizer")
    m = prog.func("tokenizer", "Tokenizer.tokenize")
    tt = prog.cls("TOKEN_TYPES")
    types = {name: const_fold(prog, tt.module, val) for name, val in tt.class_attrs.items()}
    for need in ("Constant", "Variable", "Function", "Pad", "EOF", "Plus", "Minus", "Multiply", "Divide", "Exponent",
                 "Factorial", "OpenParen", "CloseParen", "Equal"):
        if need not in types:
            raise AnalysisError(f"TOKEN_TYPES.{need} vanished")
    for exclude in (True, False):
        def body(it: Interp, exclude=exclude):
            t = it.instantiate(tok_cls, [], {"exclude_padding": exclude})
            it.tok = t
            chars = [it.new_char(alphabet) for _ in range(length)]
            it.chars = chars
            return it.call_function(m, [t, SymStr(chars)], {})

        n_paths = 0
        for p in explore(prog, body, {"max_updepth": 0, "time_budget": 200}, max_paths=60000):
            n_paths += 1
            it = p.interp
            fdict = it.tok.fields.get("functions")
            functions = [k for k in fdict.items] if isinstance(fdict, Dct) else []
            sets = [it.charsets[c.cid] for c in it.chars]
            reps = [representatives(s_, alphabet) for s_ in sets]
            label = f"len={length} padding={'dropped' if exclude else 'kept'} path: {p.cond[-200:]}"
            r1 = remap("C11.R1")
            key = f"{r1}:Tokenizer.tokenize"
            if p.outcome == "bound":
                chk.undecided(r1, key + ":bound", label, p.note, m.where)
                continue
            combos = list(itertools.islice(itertools.product(*reps), 400))
            bad = None
            for combo in combos:
                s = "".join(combo)
                want = spec_tokens(s, exclude, functions, types)
                if p.outcome == "raise":
                    got: Any = p.exc.exc
                else:
                    got = _instantiate(it, p.value, dict(zip([c.cid for c in it.chars], combo)))
                if got != want:
                    bad = (s, got, want)
                    break
            if bad is None:
                chk.ok(r1, key, label, f"{len(combos)} instantiations agree with the specification", m.where)
            else:
                s, got, want = bad
                rid, why = _classify(s, got, want, types)
                rid = remap(rid)
                chk.fail(rid, f"{rid}:Tokenizer.tokenize:{why}", label,
                         f"input {s!r} (padding {'dropped' if exclude else 'kept'}): tokenizer gives {_fmt(got, types)}, "
                         f"specification requires {_fmt(want, types)}",
                         witness={"input": s, "exclude_padding": exclude, "got": _fmt(got, types), "want": _fmt(want, types),
                                  "path": p.cond[-300:]}, where=m.where)
        chk.analysed[f"tokenize_paths_{tag}_{'drop' if exclude else 'keep'}"] = n_paths


def _instantiate(it: Interp, v, env: Dict[int, str]):
    if not isinstance(v, Lst):
        return f"returns {v!r}"
    out = []
    for t in v.items:
        if not (isinstance(t, Rec) and t.cls.name == "Token"):
            return f"non-token {t!r}"
        val = t.fields.get("value")
        if isinstance(val, SymChar):
            sval = env[val.cid]
        elif isinstance(val, SymStr):
            sval = "".join(x if isinstance(x, str) else (x.fn(env[x.cid]) if hasattr(x, "fn") else env[x.cid]) for x in val.items)
        elif isinstance(val, str):
            sval = val
        else:
            return f"token value {val!r}"
        out.append((sval, t.fields.get("type")))
    return out


def _fmt(toks, types) -> str:
    if isinstance(toks, str):
        return toks
    names = {v: k for k, v in types.items()}
    return "[" + ", ".join(f"{names.get(t, t)}:{v!r}" for v, t in toks) + "]"


def _classify(s, got, want, types) -> Tuple[str, str]:
    if isinstance(want, str) and not isinstance(got, str):
        return "C11.R4", "unsupported-character-accepted"
    if isinstance(got, str):
        return ("C11.R4", "raises-" + got) if isinstance(want, list) else ("C11.R4", "wrong-exception-" + got)
    eof = types["EOF"]
    if [t for _, t in got].count(eof) != 1 or not got or got[-1][1] != eof:
        return "C11.R3", "end-marker"
    if "".join(v for v, _ in got) != "".join(v for v, _ in want):
        return "C11.R1", "lossless"
    if [t for _, t in got] != [t for _, t in want] and len(got) == len(want):
        return "C11.R2", "token-type"
    return "C11.R5", "token-boundaries"


def run_long_runs(chk: Check, prog: Program, rid: str = "C11.R6") -> None:
    """Concrete long inputs (runs of 40 and of 300 characters of one class, runs that end in the function name, long
    padding): the tokenizer, interpreted from source, must agree with the specification - a window, a chunk size or a
    recursion limit inside a scanner shows here, the symbolic strings above are too short for it."""
    chk.rule(rid, "long runs of one character class (40 and 300 characters) tokenize like the specification", minimum=10)
    tok_cls = prog.cls("Tokenizer")
    m = prog.func("tokenizer", "Tokenizer.tokenize")
    tt = prog.cls("TOKEN_TYPES")
    types = {name: const_fold(prog, tt.module, val) for name, val in tt.class_attrs.items()}
    texts = []
    for n in (40, 300):
        texts += ["7" * n, "7" * (n // 2) + "." + "7" * (n // 2), "x" * n, "a" * (n - 3) + "sgn", "sgn" + "a" * (n - 3),
                  "7" * (n - 3) + "xyz", "x" * (n - 2) + "42", " " * n + "x", "(" * n, "7" * n + "+" + "x" * n]
    for exclude in (True, False):
        for text in texts:
            def body(it: Interp, text=text, exclude=exclude):
                t = it.instantiate(tok_cls, [], {"exclude_padding": exclude})
                it.tok = t
                return it.call_function(m, [t, text], {})
            label = f"{text[:12]}... ({len(text)} characters, padding {'dropped' if exclude else 'kept'})"
            for p in explore(prog, body, {"max_updepth": 0, "max_loop": 2000, "max_steps": 2000000, "time_budget": 120}, max_paths=4):
                if p.outcome == "bound":
                    chk.undecided(rid, f"{rid}:bound", label, p.note, m.where)
                    continue
                fdict = p.interp.tok.fields.get("functions")
                functions = [k for k in fdict.items] if isinstance(fdict, Dct) else []
                want = spec_tokens(text, exclude, functions, types)
                got: Any = p.exc.exc if p.outcome == "raise" else _instantiate(p.interp, p.value, {})
                if got == want:
                    chk.ok(rid, f"{rid}:Tokenizer.tokenize:long-run", label, where=m.where)
                else:
                    n_got = len(got) if isinstance(got, list) else got
                    n_want = len(want) if isinstance(want, list) else want
                    first = next((i for i, (g_, w_) in enumerate(zip(got, want)) if g_ != w_), None) \
                        if isinstance(got, list) and isinstance(want, list) else None
                    chk.fail(rid, f"{rid}:Tokenizer.tokenize:long-run", label,
                             f"tokenizer gives {n_got} tokens, the specification {n_want}; first difference at token {first}: "
                             f"{_fmt(got[first:first + 2], types) if first is not None else got} vs "
                             f"{_fmt(want[first:first + 2], types) if first is not None else want}",
                             witness={"input_head": text[:40], "length": len(text), "exclude_padding": exclude}, where=m.where)


def run(chk: Check) -> None:
    prog = program(chk)
    chk.technique = "abstract interpretation of the tokenizer over symbolic strings (characters as sets split by the code's " \
                    "own comparisons) + validation of every path summary against a reference specification"
    chk.rule("C11.R1", "every path of tokenize over symbolic strings agrees with the specification tokenizer", minimum=300)
    for r in ("C11.R2", "C11.R3", "C11.R4", "C11.R5"):
        chk.rule(r, "classification of a disagreement (operator table / end marker / unsupported char / boundaries)", minimum=0)
    U = universe()
    small = frozenset(SMALL_ALPHABET)
    L = 2 if chk.tier == "quick" else 3
    chk.explanation = (
        f"Decides: Tokenizer.tokenize, interpreted from source on symbolic strings of length 0..{L} over an alphabet of "
        f"{len(U)} code points (all of Latin-1 plus en dash, Arabic-Indic digit, full-width A and 1, minus sign, multiplication sign, Kelvin sign, long s, dotless i, Greek alpha, Roman numeral one) and of "
        "length 3..4 over a reduced alphabet that contains the letters of the registered function name, agrees on "
        "every path and in both padding modes with the specification tokenizer of the property statement: values "
        "concatenate to the input up to the three normalisations (padding only dropped on request), digit/dot runs are "
        "maximal constants, each letter its own variable unless the whole letter run is a function name, operator and "
        "alias table with the right token types, exactly one end marker at the end, ValueError for every other "
        "character; twenty concrete long inputs (runs of 40 and 300 characters of one class) tokenize like the "
        "specification. A path stands for all strings whose characters lie in the sets the code's comparisons carve out; "
        "each path is instantiated with representatives of every specification class inside those sets, including the "
        "range end points. Not decided: strings longer than the bound (the loop body is the same for every further "
        "character; no induction is attempted), code points outside the analysed alphabet.")
    chk.assumptions = ["string length bound", f"alphabet of {len(U)} code points"]
    for n in range(0, L + 1):
        run_tokenize(chk, prog, n, U, f"U{n}")
    for n in ((3, 4) if chk.tier == "quick" else (4,)):
        run_tokenize(chk, prog, n, small, f"S{n}")
    run_long_runs(chk, prog)
    chk.exhaustive = True
    chk.max_undecided = 0
