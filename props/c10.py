"""C10 - parsing is total, has a closed error contract and keeps no sticky state.

R1 closed contract: on every path of `parse` over symbolic token streams the escaping exception class is a
   ParserException subclass or ValueError (never IndexError / AttributeError / KeyError / AssertionError ...).
R2 every path finishes within the step budget (no non-consuming loop) and returned trees are well formed.
R3 recursion only through nesting: every cycle of the production call graph passes an edge that first consumes an
   opening construct ('(' / function call) or the exponent edge; a level that recurses into itself per operator
   overflows the stack on flat input.
R4 no sticky state: after any parse (failing or not) the same parser answers the next parse like a fresh one.
R5 near-miss inputs beyond the exhaustive bound.   R6 Function tokens carry keys of the table the parser indexes.
"""
from __future__ import annotations

import ast
from typing import Dict, List, Set, Tuple

from sa.absint import Interp
from sa.model import Program, unparse
from sa.parsecases import analyse_parser, analyse_scenarios
from sa.report import Check, REPO
from .common import program
from .c03 import abstract_pattern

WHERE = "mathy_core/parser.py:ExpressionParser._parse"


def run_contract(chk: Check, recs: List[dict]) -> None:
    chk.rule("C10.R1", "escaping exception class is in the documented contract, per token sequence", minimum=1000)
    chk.rule("C10.R2", "every path terminates within the step budget; returned trees are well formed", minimum=1000)
    for r in recs:
        label = f"{r.get('surface')!r}" if "surface" in r else f"tokens {r.get('type_sets')}"
        if r["outcome"] == "bound":
            chk.fail("C10.R2", f"C10.R2:no-termination:{r.get('note', '')[:60]}", label,
                     f"the parser does not finish within the path budget on this token sequence: {r.get('note')}",
                     witness={"type_sets": r.get("type_sets"), "path": r.get("cond")}, where=WHERE)
            continue
        if r["outcome"] == "raise":
            if r.get("contract_ok"):
                chk.ok("C10.R1", "C10.R1", f"{label} -> {r['exc']}", where=WHERE)
            else:
                chk.fail("C10.R1", f"C10.R1:{r['exc']}@{r['site'].split(':L')[0]}", label,
                         f"{r['exc']} escapes parse() ({r.get('detail')}); the contract allows ParserException subclasses "
                         f"and ValueError only", witness={"input": r.get("surface"), "tokens": r.get("tokens"), "site": r["site"]},
                         where=r["site"].split(":L")[0])
            chk.ok("C10.R2", "C10.R2", label, where=WHERE)
        else:
            chk.ok("C10.R1", "C10.R1", f"{label} -> tree", where=WHERE)
            if r.get("non_node_result") or r.get("links"):
                chk.fail("C10.R2", "C10.R2:ill-formed-tree", label, f"returned value is not a well-formed tree: "
                         f"{r.get('non_node_result') or r.get('links')[0]}", witness={"input": r.get("surface")}, where=WHERE)
            else:
                chk.ok("C10.R2", "C10.R2", label, where=WHERE)


def run_near_misses(chk: Check, lengths) -> None:
    """Malformed inputs beyond the exhaustive bound: one token deleted from / the last token replaced in a derivable
    sequence.  Every one must end in an exception of the contract."""
    from sa.parsecases import analyse_near_misses
    chk.rule("C10.R5", "truncated / one-token-off inputs of 6 (thorough 7) tokens end in an exception of the contract",
             minimum=10000)
    for n in lengths:
        ok, bad = analyse_near_misses(str(REPO), n)
        chk.analysed[f"near_miss_paths_{n}"] = ok + len(bad)
        for i in range(min(ok, 12000)):
            chk.ok("C10.R5", "C10.R5", f"near-miss sequence #{i} of length {n}", where=WHERE)
        for r in bad:
            label = f"{r['surface']!r} ({' '.join(r['tokens'])})"
            if r["outcome"] == "raise":
                chk.fail("C10.R5", f"C10.R1:{r['exc']}@{r['site'].split(':L')[0]}", label,
                         f"{r['exc']} escapes parse() ({r.get('detail')}); the contract allows ParserException subclasses and "
                         f"ValueError only", witness={"input": r["surface"], "tokens": r["tokens"], "site": r["site"]},
                         where=r["site"].split(":L")[0])
            elif r["outcome"] == "bound":
                chk.fail("C10.R5", "C10.R2:no-termination", label, f"the parser does not finish within the path budget: {r.get('note')}",
                         witness={"input": r["surface"]}, where=WHERE)
            else:
                chk.info("C10.R5", "C10.R5:accepted", label, "accepted although not derivable (acceptance is C03's clause)")


def production_graph(prog: Program) -> Tuple[Dict[str, List[Tuple[str, bool, str]]], List[str]]:
    cls = prog.cls("ExpressionParser")
    prods = [n for n in cls.methods if n.startswith("parse_") or n == "_parse"]
    graph: Dict[str, List[Tuple[str, bool, str]]] = {p: [] for p in prods}
    for p in prods:
        fn = cls.methods[p].node

        def visit(stmts: List[ast.stmt], opened: bool):
            for st in stmts:
                # a statement that eats an opening construct makes the rest of the block 'nested'
                for c in ast.walk(st) if not isinstance(st, (ast.If, ast.While, ast.For)) else []:
                    pass
                if isinstance(st, (ast.If, ast.While, ast.For)):
                    test = getattr(st, "test", None)
                    if test is not None:
                        scan(test, opened)
                    visit(st.body, opened)
                    visit(st.orelse, opened)
                    continue
                scan(st, opened)
                if eats_open(st):
                    opened = True

        def eats_open(st: ast.stmt) -> bool:
            for c in ast.walk(st):
                if isinstance(c, ast.Call) and isinstance(c.func, ast.Attribute) and c.func.attr == "eat" and c.args:
                    a = unparse(c.args[0])
                    if a.endswith("OpenParen") or a.endswith("Exponent"):
                        return True
                    if a in ("opType",) and p in ("parse_exponent", "parse_factors"):
                        return True  # the exponent operator was checked with _IS_EXP just before
                    if a == "self.current_token.type" and p == "parse_function":
                        return True
            return False

        def scan(node: ast.AST, opened: bool):
            for c in ast.walk(node):
                if isinstance(c, ast.Call) and isinstance(c.func, ast.Attribute) and isinstance(c.func.value, ast.Name) \
                        and c.func.value.id == "self" and c.func.attr in prods:
                    graph[p].append((c.func.attr, opened, unparse(c)))
        visit(fn.body, False)
    return graph, prods


def run_recursion(chk: Check, prog: Program) -> None:
    chk.rule("C10.R3", "every cycle of the production call graph passes through a nesting edge", minimum=3)
    graph, prods = production_graph(prog)
    # cycles using only non-nesting edges
    plain = {p: sorted({q for q, opened, _ in graph[p] if not opened}) for p in prods}
    reported: Set[str] = set()

    def dfs(start: str, cur: str, path: List[str], seen: Set[str]):
        for q in plain[cur]:
            if q == start:
                cyc = path + [q]
                key = "->".join(cyc)
                canon = min("->".join(cyc[i:-1] + cyc[:i] + [cyc[i]]) for i in range(len(cyc) - 1))
                if canon not in reported:
                    reported.add(canon)
                    m = prog.func("parser", f"ExpressionParser.{start}")
                    chk.fail("C10.R3", f"C10.R3:cycle:{canon}", f"production cycle {key} without consuming an opening construct",
                             "this cycle is taken once per operator on flat (un-nested) input, so recursion depth grows "
                             "with the length of the input: a flat product of ~1000 factors raises RecursionError",
                             witness={"example": "'1*1*...*1' with 1200 factors raises RecursionError"}, where=m.where)
            elif q not in seen:
                dfs(start, q, path + [q], seen | {q})
    for p in prods:
        dfs(p, p, [p], {p})
    for p in prods:
        for q, opened, txt in graph[p]:
            if opened:
                chk.ok("C10.R3", f"C10.R3:nesting-edge:{p}->{q}", f"{p} -> {q} after an opening construct ({txt})",
                       where=f"mathy_core/parser.py:ExpressionParser.{p}")
            else:
                chk.info("C10.R3", f"C10.R3:edge:{p}->{q}", f"{p} -> {q}")


def run_helper_recursion(chk: Check, prog: Program) -> None:
    """Besides its own productions, the parser must not reach a recursive function: the constructors and link primitives
    it calls while building a flat (un-nested) chain of thousands of operands would otherwise recurse once per operand
    already in the tree.  Call graph by resolved names (methods by name over every class of the package, which
    over-approximates the receivers); productions are excluded (their cycles are C10.R3's)."""
    chk.rule("C10.R7", "no recursive helper is reachable from the parser's productions (stack depth must not grow with the "
             "length of flat input)", minimum=5)
    by_method: Dict[str, list] = {}
    by_func: Dict[str, list] = {}
    for f in prog.all_functions():
        (by_method if f.cls is not None else by_func).setdefault(f.name, []).append(f)

    def callees(f) -> Set[str]:
        out: Set[str] = set()
        for n in ast.walk(f.node):
            if not isinstance(n, ast.Call):
                continue
            fn = n.func
            if isinstance(fn, ast.Attribute):
                recv = fn.value
                cands = by_method.get(fn.attr, [])
                if isinstance(recv, ast.Call) and isinstance(recv.func, ast.Name) and recv.func.id == "super" and f.cls is not None:
                    m = prog.find_method(f.cls.name, fn.attr, after=f.cls.name)
                    cands = [m] if m is not None else []
                elif isinstance(recv, ast.Name) and recv.id == "self" and f.cls is not None:
                    # the receiver is an instance of f's class or of one of its subclasses
                    cands = [g for g in cands if prog.is_subclass(g.cls.name, f.cls.name) or prog.is_subclass(f.cls.name, g.cls.name)]
                    own = prog.find_method(f.cls.name, fn.attr)
                    if own is not None:
                        cands = [g for g in cands if prog.is_subclass(g.cls.name, f.cls.name)] + [own]
                for g in cands:
                    out.add(g.where)
            elif isinstance(fn, ast.Name):
                r = prog.resolve_name(f.module, fn.id)
                if r and r[0] == "func":
                    out.add(r[1].where)
                elif r and r[0] == "class":
                    for c in prog.mro(r[1]):
                        for mname in ("__init__", "__post_init__"):
                            if mname in c.methods:
                                out.add(c.methods[mname].where)
        return out
    funcs = {f.where: f for f in prog.all_functions()}
    graph = {w: callees(f) & set(funcs) for w, f in funcs.items()}
    parser_cls = prog.cls("ExpressionParser")
    prods = {m.where for n, m in parser_cls.methods.items()}
    # reachable from the parser's methods, not passing through error reporting (raise statements end the parse)
    seen: Set[str] = set()
    stack = list(prods)
    while stack:
        w = stack.pop()
        if w in seen:
            continue
        seen.add(w)
        stack.extend(graph[w])
    helpers = sorted(seen - prods)
    # strongly connected components among the helpers (Tarjan)
    index: Dict[str, int] = {}
    low: Dict[str, int] = {}
    on: Set[str] = set()
    st: List[str] = []
    sccs: List[List[str]] = []

    def strong(v: str):
        index[v] = low[v] = len(index)
        st.append(v)
        on.add(v)
        for w in graph[v]:
            if w not in helpers_set:
                continue
            if w not in index:
                strong(w)
                low[v] = min(low[v], low[w])
            elif w in on:
                low[v] = min(low[v], index[w])
        if low[v] == index[v]:
            comp = []
            while True:
                w = st.pop()
                on.discard(w)
                comp.append(w)
                if w == v:
                    break
            sccs.append(comp)
    helpers_set = set(helpers)
    import sys
    sys.setrecursionlimit(max(10000, sys.getrecursionlimit()))
    for v in helpers:
        if v not in index:
            strong(v)
    recursive = [c for c in sccs if len(c) > 1 or c[0] in graph[c[0]]]
    for c in recursive:
        name = " -> ".join(sorted(x.split(":")[-1] for x in c))
        chk.fail("C10.R7", f"C10.R7:recursive-helper:{sorted(c)[0].split(':')[-1]}", f"recursive function(s) reachable from the parser: {name}",
                 "the parser builds flat chains left-deep, one node per operand: a helper that walks or re-walks the tree "
                 "recursively makes the stack depth grow with the length of un-nested input (RecursionError near 1000 terms)",
                 witness={"cycle": sorted(c)}, where=sorted(c)[0])
    rec_set = {x for c in recursive for x in c}
    for h in helpers:
        if h not in rec_set:
            chk.ok("C10.R7", "C10.R7", f"{h.split(':')[-1]} (reachable from the parser) is not recursive", where=h)


def run_sticky(chk: Check, scen: List[dict], pid: str = "C10", rid: str = "R4",
               names=("parse;parse", "parse;parse;parse", "parse;clear;parse", "tokenize;parse", "tokenize;consume;parse",
                      "parse(other);parse", "parse(ws-variant);parse")) -> None:
    chk.rule(f"{pid}.{rid}", "a parser that served earlier calls answers like a fresh parser (per history scenario and token "
             "sequence)", minimum=50)
    where = "mathy_core/parser.py:ExpressionParser.parse"
    for r in scen:
        if r["scenario"] not in names:
            continue
        label = f"history {r['scenario']} with token types {r.get('types')}"
        key = f"{pid}.{rid}:{r['scenario']}"
        if r["outcome"] == "ok":
            chk.ok(f"{pid}.{rid}", key, label, where=where)
        elif r["outcome"] in ("differs", "aliased"):
            chk.fail(f"{pid}.{rid}", key + ":" + r["outcome"], label,
                     f"long-lived parser gives {r.get('used')}, a fresh parser gives {r.get('fresh')} {r.get('note', '')}",
                     witness={"scenario": r["scenario"], "token_types": r.get("types"), "path": r.get("cond")}, where=where)
        else:
            chk.undecided(f"{pid}.{rid}", key + ":bound", label, str(r.get("note")), where)


def run_function_tokens(chk: Check, prog: Program) -> None:
    """The parser indexes the function table with the text of a Function token (a miss is a KeyError, outside the
    contract), and the token-stream analysis above draws Function tokens from that table: the tokenizer, interpreted
    on symbolic letter runs, must give the Function type only to texts that are keys of the table."""
    import itertools
    from sa.absint import Dct, Lst, Rec, SymStr, explore
    from sa.model import const_fold
    from .c11 import _instantiate, representatives
    chk.rule("C10.R6", "every Function token the tokenizer can emit carries a key of the function table the parser indexes",
             minimum=20)
    tok_cls = prog.cls("Tokenizer")
    m = prog.func("tokenizer", "Tokenizer.tokenize")
    tt = prog.cls("TOKEN_TYPES")
    fn_type = const_fold(prog, tt.module, tt.class_attrs["Function"])
    lookups = [n for f in prog.cls("ExpressionParser").methods.values() for n in ast.walk(f.node)
               if isinstance(n, ast.Subscript) and isinstance(n.value, ast.Attribute) and n.value.attr == "functions"]
    chk.analysed["function_table_lookups_in_parser"] = len(lookups)
    names = None
    for length in (3, 4):
        def body(it: Interp, length=length):
            t = it.instantiate(tok_cls, [], {"exclude_padding": True})
            it.tok = t
            fdict = t.fields.get("functions")
            keys = [k for k in fdict.items if isinstance(k, str)] if isinstance(fdict, Dct) else []
            letters = "".join(sorted(set("".join(keys)))) or "f"
            it.alphabet = frozenset(letters + letters.upper() + "x(")
            it.chars = [it.new_char(it.alphabet) for _ in range(length)]
            return it.call_function(m, [t, SymStr(it.chars)], {})
        for p in explore(prog, body, {"max_updepth": 0, "time_budget": 120}, max_paths=60000):
            it = p.interp
            if p.outcome != "return" or not isinstance(p.value, Lst):
                continue
            fdict = it.tok.fields.get("functions")
            keys = [k for k in fdict.items if isinstance(k, str)] if isinstance(fdict, Dct) else []
            has_fn = [t for t in p.value.items if isinstance(t, Rec) and t.fields.get("type") == fn_type]
            label = f"len={length} path: {p.cond[-200:]}"
            if not has_fn:
                chk.ok("C10.R6", "C10.R6:Tokenizer.tokenize:function-token-text", label, "no Function token", m.where)
                continue
            reps = [representatives(it.charsets[c.cid], it.alphabet) for c in it.chars]
            bad = None
            for combo in itertools.islice(itertools.product(*reps), 400):
                got = _instantiate(it, p.value, dict(zip([c.cid for c in it.chars], combo)))
                if isinstance(got, str):
                    bad = ("".join(combo), got)
                    break
                for val, typ in got:
                    if typ == fn_type and val not in keys:
                        bad = ("".join(combo), val)
                        break
                if bad:
                    break
            chk.verdict(bad is None, "C10.R6", "C10.R6:Tokenizer.tokenize:function-token-text", label,
                        "" if bad is None else f"input {bad[0]!r}: Function token {bad[1]!r} is not a key of the function table "
                        f"{keys}: the parser's table lookup raises KeyError",
                        witness=None if bad is None else {"input": bad[0], "token": bad[1], "table": keys}, where=m.where)


def run(chk: Check) -> None:
    prog = program(chk)
    n = 5 if chk.tier == "quick" else 6
    chk.technique = "abstract interpretation of the parser over symbolic token streams (exception classes per path); " \
                    "production call-graph cycle rule; call-history scenarios against a fresh parser"
    chk.explanation = (
        f"Decides: for every sequence of 0..{n} tokens, parse() either returns a well-formed tree or the escaping "
        "exception class is a ParserException subclass or ValueError, and every path finishes within the step budget; "
        "no cycle of the production call graph can be taken without first consuming '(' / a function name / '^' (today "
        "parse_mult -> parse_mult can: known finding, RecursionError on long flat products); in the history scenarios "
        "parse;parse, parse;parse;parse, parse;clear;parse, tokenize;parse, tokenize;consume;parse, parse(other);parse "
        "(first call failing or succeeding, all token sequences of length 2/3) the used parser answers exactly like a "
        "fresh one; the tokenizer gives the Function type only to texts that are keys of the table the parser indexes "
        "(letter runs of 3-4 symbolic characters over the table's letters in both cases). Not decided: termination "
        "beyond the bound; tokenizer totality (C11).")
    chk.assumptions = [f"token sequence length <= {n}; scenario texts of 2 (quick) / 3 (thorough) tokens",
                       "tokenizer contract from C11"]
    recs = analyse_parser(str(REPO), n)
    chk.analysed["parser_paths_instantiated"] = len(recs)
    run_contract(chk, recs)
    run_near_misses(chk, (6,) if chk.tier == "quick" else (6, 7))
    run_recursion(chk, prog)
    run_helper_recursion(chk, prog)
    # no sticky state after a failure, with the real tokenizer and parser on concrete texts: histories around a text that
    # fails to parse (the clause of C12.R7 restricted to them)
    from .c12 import run_concrete_history
    run_concrete_history(chk, prog, rid="C10.R8", focus="x +")
    run_function_tokens(chk, prog)
    scen = analyse_scenarios(str(REPO), 2 if chk.tier == "quick" else 3)
    chk.analysed["scenario_paths"] = len(scen)
    run_sticky(chk, scen)
    # contracts of other parts of the library this check takes for granted (summaries, token model, reference grammar):
    # the clauses that check the source against them, replayed under this property (props/contracts.py)
    from .contracts import run_contracts
    run_contracts(chk, prog, ['tokenizer'])
    chk.exhaustive = True
    chk.max_undecided = 0
