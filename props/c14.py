"""C14 - traversals and look-ups visit exactly the right nodes in the right order.

R1-R4 (order, depth, stop, once): each visit_* method is interpreted on a summary node of a generic binary tree
   (children present/absent forked lazily) with an opaque visitor whose answer forks {STOP, None}; recursive calls on
   other receivers are summarised by the induction hypothesis (event `subtree(X, depth)` with a forked STOP/None
   answer).  The produced event trace is compared with the specification trace of the materialised shape; a
   specification `subtree` event is expanded on demand, so an iterative implementation is judged by the same rule.
R5 queries: to_list / find_id / find_type over an abstract visit sequence; get_side / get_sibling / get_children /
   get_root / get_root_side / is_leaf over every local configuration.
"""
from __future__ import annotations

from typing import Any, Dict, List, Optional, Tuple

from sa import algebra as A
from sa.absint import (AbsRaise, Cls, Interp, Lst, Node, Num, Opaque, Rec, Unsupported, _MISSING, explore)
from sa.model import Program
from sa.report import AnalysisError, Check
from .common import program

ORDERS = {"visit_preorder": ["visit", "left", "right"], "visit_inorder": ["left", "visit", "right"],
          "visit_postorder": ["left", "right", "visit"]}


def _field(it: Interp, cid: int, f: str):
    c = it.cells[cid]
    return c.cur.get(f, c.entry.get(f, _MISSING))


def _desc(it: Interp, anc: int, x: int) -> bool:
    seen = set()
    while x not in seen:
        if x == anc:
            return True
        seen.add(x)
        p = _field(it, x, "parent")
        if not isinstance(p, Node):
            return False
        x = p.cid
    return False


def expand(it: Interp, order: List[str], cid: int, depth) -> List[tuple]:
    out = []
    for step in order:
        if step == "visit":
            out.append(("visit", cid, depth))
        else:
            v = _field(it, cid, step)
            if isinstance(v, Node):
                out.append(("subtree", v.cid, ("add", depth, A.lit(1))))
            elif v is _MISSING:
                out.append(("maybe-subtree", cid, step, ("add", depth, A.lit(1))))
    return out


def same_depth(a, b) -> bool:
    try:
        return A.equal_nf(a, b)
    except Exception:
        return False


def check_trace(it: Interp, order: List[str], root: int, d0, trace: List[tuple], ret) -> List[str]:
    """trace: list of (kind, cid, depth_term, fn_ok, data_ok, answer)."""
    expected = expand(it, order, root, d0)
    probs: List[str] = []
    i = 0
    stopped = False
    for ev in trace:
        kind, cid, dt, fn_ok, data_ok, ans = ev
        if stopped:
            probs.append(f"{kind}(n{cid}) happens after a STOP answer")
            break
        # drop spec entries for children never looked at (absent by construction of this path)
        while True:
            if i >= len(expected):
                probs.append(f"unexpected extra event {kind}(n{cid})")
                return probs
            head = expected[i]
            if head[0] == "maybe-subtree":
                i += 1
                continue
            if head[0] == "subtree" and not (kind == "subtree" and cid == head[1]) and _desc(it, head[1], cid):
                expected[i:i + 1] = expand(it, order, head[1], head[2])
                continue
            break
        head = expected[i]
        if (kind, cid) != (head[0], head[1]):
            probs.append(f"event #{len(probs) + i + 1} is {kind}(n{cid}), the defining order requires {head[0]}(n{head[1]})")
            return probs
        if not same_depth(dt, head[2]):
            probs.append(f"{kind}(n{cid}) gets depth {A.term_str(dt)}, true depth is {A.term_str(head[2])}")
        if not fn_ok:
            probs.append(f"{kind}(n{cid}) does not forward the visitor unchanged")
        if not data_ok:
            probs.append(f"{kind}(n{cid}) does not forward the user data unchanged")
        i += 1
        if ans == "stop":
            stopped = True
    if stopped:
        if ret != "stop":
            probs.append(f"a STOP answer is not propagated: returns {ret!r}")
    else:
        rest = [h for h in expected[i:] if h[0] != "maybe-subtree"]
        if rest:
            probs.append(f"traversal ends without {rest[0][0]}(n{rest[0][1]})")
        never = [h for h in expected if h[0] == "maybe-subtree"]
        if never:
            probs.append(f"the {never[0][2]} child of n{never[0][1]} is never looked at on this path: when it exists its "
                         f"subtree is not visited")
        if ret is not None:
            probs.append(f"returns {ret!r} although nobody asked to stop")
    return probs


def run_traversals(chk: Check, prog: Program) -> None:
    chk.rule("C14.R1", "event trace of visit_* == defining order, true depth, immediate STOP, once per node "
             "(all child-presence shapes x stop positions)", minimum=24)
    for name, order in ORDERS.items():
        m = prog.func("tree", f"BinaryTreeNode.{name}")

        def body(it: Interp, m=m, name=name):
            node = it.new_summary(frozenset(["BinaryTreeNode"]), "arg")
            it.arg = node
            it.trace = []
            fn = Opaque("visit_fn", truthy=True)
            data = Opaque("user-data")
            d0 = Num(("sym", "d"))
            it.top_call = True

            def answer(label):
                i = it.choose(2, label, ["continue", "STOP"])
                return "stop" if i == 1 else None

            def opaque_call(it2, f, args, kwargs):
                if f is not fn:
                    raise Unsupported("call of unknown opaque")
                n = args[0] if args else None
                dt = it2.to_term(args[1]) if len(args) > 1 else None
                dv = args[2] if len(args) > 2 else kwargs.get("data")
                if not isinstance(n, Node) or dt is None:
                    raise Unsupported("visitor called with unexpected arguments")
                ans = answer(f"visitor(n{n.cid})")
                it2.trace.append(("visit", n.cid, dt, True, dv is data, ans))
                return ans

            def rec_hook(which):
                def h(it2, info, args, kwargs):
                    selfv = args[0]
                    if it2.top_call and isinstance(selfv, Node) and selfv.cid == node.cid:
                        it2.top_call = False
                        return NotImplemented
                    if not isinstance(selfv, Node):
                        raise Unsupported("visit on non-node")
                    params = ["visit_fn", "depth", "data"]
                    vals = dict(zip(params, args[1:]))
                    vals.update(kwargs)
                    dt = it2.to_term(vals.get("depth", 0))
                    ans = answer(f"{which}(n{selfv.cid})")
                    kind = "subtree" if which == name else f"WRONG-ORDER:{which}"
                    it2.trace.append((kind, selfv.cid, dt, vals.get("visit_fn") is fn, vals.get("data") is data, ans))
                    return ans
                return h

            for o in ORDERS:
                it.hooks[f"BinaryTreeNode.{o}"] = rec_hook(o)
            it.hooks["opaque-call"] = opaque_call
            if getattr(it, "use_default_depth", False):
                return it.call_function(m, [node, fn], {"data": data})
            return it.call_function(m, [node, fn, d0, data], {})

        def body_default(it: Interp, body=body):
            it.use_default_depth = True
            return body(it)

        results = explore(prog, body, {"tree_mode": "binary", "max_updepth": 0, "max_downdepth": 3})
        for p in explore(prog, body_default, {"tree_mode": "binary", "max_updepth": 0, "max_downdepth": 1}):
            if p.outcome != "return":
                continue
            probs = check_trace(p.interp, order, p.interp.arg.cid, A.lit(0), p.interp.trace, p.value)
            chk.verdict(not probs, "C14.R1", f"C14.R1:{name}:default-depth", f"{name} called without a depth: {p.cond}",
                        "; ".join(probs), witness={"problems": probs}, where=m.where)
        for p in results:
            it = p.interp
            shape = p.cond
            key = f"C14.R1:{name}"
            if p.outcome == "bound":
                chk.undecided("C14.R1", key + ":bound", shape, p.note, m.where)
                continue
            if p.outcome == "raise":
                chk.fail("C14.R1", key + ":raise", shape, f"traversal raises {p.exc}", witness={"shape": shape}, where=m.where)
                continue
            probs = check_trace(it, order, it.arg.cid, ("sym", "d"), it.trace, p.value)
            chk.verdict(not probs, "C14.R1", key, f"{name}: {shape}", "; ".join(probs),
                        witness={"shape_and_answers": shape, "trace": [(t[0], f"n{t[1]}", A.term_str(t[2]), t[5]) for t in it.trace],
                                 "problems": probs}, where=m.where)


# --------------------------------------------------------------------------- queries
def _seq_hooks(it: Interp, root: Node, seq: List[Node]):
    def h_visit(order):
        def h(it2, info, args, kwargs):
            selfv, fn = args[0], args[1]
            todo = seq
            if not (isinstance(selfv, Node) and selfv.cid == root.cid):
                if not isinstance(selfv, Node) or getattr(it2, "outer", None) is None:
                    raise Unsupported("visit on unexpected receiver")
                # a traversal started somewhere else in the tree: it meets nodes outside the receiver's subtree as well
                it2.visits.append(("traversal-elsewhere", order, selfv.cid))
                todo = it2.outer[:1] + seq + it2.outer[1:]
            else:
                it2.visits.append(("traversal", order))
            for i, n in enumerate(todo):
                r = it2.call(fn, [n, Opaque(f"depth{i}"), None], {})
                it2.visits.append(("visited", n.cid, r))
                if r == "stop":
                    return "stop"
            return None
        return h
    for o in ("inorder", "preorder", "postorder"):
        it.hooks[f"BinaryTreeNode.visit_{o}"] = h_visit(o)


def run_queries(chk: Check, prog: Program) -> None:
    chk.rule("C14.R5", "look-ups agree with the traversals and the link structure", minimum=25)
    from sa.absint import ALL_KINDS
    # ---- to_list
    m = prog.func("expressions", "MathExpression.to_list")
    for arg in ("inorder", "preorder", "postorder", "bogus", None):
        def body(it: Interp, arg=arg):
            root = it.new_summary(ALL_KINDS, "arg")
            seq = [it.new_summary(ALL_KINDS, "arg") for _ in range(3)]
            it.seq = seq
            it.visits = []
            _seq_hooks(it, root, seq)
            return it.call_function(m, [root] + ([arg] if arg is not None else []), {})
        for p in explore(prog, body, {"max_updepth": 0}):
            it = p.interp
            label = f"to_list({arg!r})"
            probs = []
            want = arg if arg is not None else "preorder"
            if want in ("inorder", "preorder", "postorder"):
                trav = [v[1] for v in it.visits if v[0] == "traversal"]
                if p.outcome != "return":
                    probs.append(f"raises {p.exc}")
                else:
                    if trav != [want]:
                        probs.append(f"uses traversal(s) {trav}, name says {want}")
                    got = [x.cid for x in p.value.items] if isinstance(p.value, Lst) else None
                    if got != [n.cid for n in it.seq]:
                        probs.append(f"returned list is not the visit sequence")
            else:
                if not (p.outcome == "raise" and p.exc.exc == "ValueError"):
                    probs.append(f"unknown order must raise ValueError, got {p.outcome} {p.exc or p.value!r}")
            chk.verdict(not probs, "C14.R5", f"C14.R5:to_list:{arg}", label, "; ".join(probs), where=m.where)
    # ---- find_id
    m = prog.func("expressions", "MathExpression.find_id")

    def body_fid(it: Interp):
        root = it.new_summary(ALL_KINDS, "arg")
        seq = [it.new_summary(ALL_KINDS, "arg") for _ in range(3)]
        it.seq = seq
        it.visits = []
        _seq_hooks(it, root, seq)
        it.target = Opaque("wanted-id")
        # the receiver may sit inside a larger tree: nodes outside its subtree exist and may carry the wanted id
        it.outer = [it.new_summary(ALL_KINDS, "arg") for _ in range(2)]
        return it.call_function(m, [root, it.target], {})
    for p in explore(prog, body_fid, {"max_updepth": 2}):
        it = p.interp
        probs = []
        inside = {n.cid for n in it.seq}
        if any(v[0] == "traversal-elsewhere" for v in it.visits) and p.outcome == "return" and isinstance(p.value, Node) \
                and p.value.cid not in inside:
            probs.append("returns a node that is not below the receiver (the search was continued from another node of the tree)")
        hits = [c for c in [n.cid for n in it.seq] if any(k.startswith("eq:") and f"id{c}" in k and v for k, v in it.atoms.items())]
        visited = [v[1] for v in it.visits if v[0] == "visited"]
        label = f"find_id with matches at {[ [n.cid for n in it.seq].index(h) for h in hits]}"
        if p.outcome != "return":
            probs.append(f"raises {p.exc}")
        elif hits:
            if not (isinstance(p.value, Node) and p.value.cid == hits[0]):
                probs.append(f"returns {p.value!r}, first match is n{hits[0]}")
            if visited and visited[-1] != hits[0]:
                probs.append("does not stop at the first match")
        else:
            if p.value is not None:
                probs.append(f"returns {p.value!r} without a match")
        chk.verdict(not probs, "C14.R5", "C14.R5:find_id", label, "; ".join(probs), where=m.where)
    # ---- find_type (source, not the summary)
    m = prog.func("expressions", "MathExpression.find_type")

    for tname in ("AddExpression", "BinaryExpression", "UnaryExpression"):
        subs = frozenset(k for k in prog.concrete_kinds() if prog.is_subclass(k, tname))

        def body_ft(it: Interp, tname=tname):
            root = it.new_summary(ALL_KINDS, "arg")
            seq = [it.new_summary(ALL_KINDS, "arg") for _ in range(2)]
            it.seq = seq
            it.visits = []
            _seq_hooks(it, root, seq)
            return it.call_function(m, [root, Cls(prog.cls(tname))], {})
        for p in explore(prog, body_ft, {"max_updepth": 0}):
            it = p.interp
            probs = []
            if p.outcome != "return" or not isinstance(p.value, Lst):
                probs.append(f"{p.outcome} {p.exc}")
            else:
                got = [x.cid for x in p.value.items if isinstance(x, Node)]
                want = []
                for n in it.seq:
                    ks = frozenset(it.kinds_of(it.cells[n.cid]))
                    if ks <= subs:
                        want.append(n.cid)
                    elif ks & subs:
                        # the path did not find out whether this node is an instance: whatever it answers is wrong for
                        # some node of the remaining classes
                        inst = sorted(k.replace("Expression", "") for k in ks & subs)[:3]
                        if n.cid not in got:
                            probs.append(f"a node that may be a {'/'.join(inst)} (an instance of {tname}) is left out without "
                                         f"being tested for it")
                        else:
                            probs.append(f"a node is returned without being tested for {tname}")
                if not probs and got != want:
                    probs.append(f"returns {got}, instances of {tname} in visit order are {want}")
                if [v[1] for v in it.visits if v[0] == "traversal"] != ["inorder"]:
                    probs.append("find_type must scan in in-order")
            chk.verdict(not probs, "C14.R5", "C14.R5:find_type", f"find_type({tname}): {p.cond}", "; ".join(probs), where=m.where)
    # ---- local structure queries on generic binary trees
    cfgb = {"tree_mode": "binary", "max_updepth": 2, "max_downdepth": 2}
    from .common import value_equal_classes
    veq = value_equal_classes(prog)
    # node classes that compare by value (when the package defines any) take part next to the plain node class: the
    # queries must follow the links, not what == says about two different nodes
    universes = [frozenset(["BinaryTreeNode"])] + ([frozenset(veq[:3] + ["BinaryTreeNode"])] if veq else [])
    chk.analysed["node_classes_comparing_by_value"] = veq

    def run_local(fname: str, setup, judge):
        mm = prog.func("tree", f"BinaryTreeNode.{fname}")
        for T in universes:
            def body(it: Interp, T=T):
                node = it.new_summary(T, "arg")
                it.arg = node
                args = setup(it, node)
                return it.call_function(mm, [node] + args, {})
            for p in explore(prog, body, cfgb):
                probs = judge(p.interp, p)
                chk.verdict(not probs, "C14.R5", f"C14.R5:{fname}", f"{fname}: {p.cond}", "; ".join(probs),
                            witness={"configuration": p.cond}, where=mm.where)

    def _unread(it):
        return [s for s in ("left", "right") if _field(it, it.arg.cid, s) is _MISSING]

    def j_children(it, p):
        if p.outcome != "return" or not isinstance(p.value, Lst):
            return [f"{p.outcome} {p.exc}"]
        if _unread(it):
            return [f"never looks at the {_unread(it)[0]} child: a node that has one gets the wrong answer"]
        want = [v.cid for v in (_field(it, it.arg.cid, "left"), _field(it, it.arg.cid, "right")) if isinstance(v, Node)]
        got = [x.cid for x in p.value.items if isinstance(x, Node)]
        return [] if got == want else [f"returns {got}, children (left first) are {want}"]
    run_local("get_children", lambda it, n: [], j_children)

    def j_leaf(it, p):
        if p.outcome != "return":
            return [f"{p.outcome} {p.exc}"]
        if p.value is True and _unread(it):
            return [f"answers 'leaf' without looking at the {_unread(it)[0]} child"]
        has = any(isinstance(_field(it, it.arg.cid, s), Node) for s in ("left", "right"))
        return [] if p.value == (not has) else [f"is_leaf returns {p.value!r} for a node with{'' if has else 'out'} children"]
    run_local("is_leaf", lambda it, n: [], j_leaf)

    def j_sibling(it, p):
        if p.outcome != "return":
            return [f"{p.outcome} {p.exc}"]
        par = _field(it, it.arg.cid, "parent")
        if not isinstance(par, Node):
            return [] if p.value is None else [f"root has sibling {p.value!r}"]
        l, r = _field(it, par.cid, "left"), _field(it, par.cid, "right")
        other = r if (isinstance(l, Node) and l.cid == it.arg.cid) else l
        ok = (p.value is None and other is None) or (isinstance(p.value, Node) and isinstance(other, Node) and p.value.cid == other.cid)
        return [] if ok else [f"returns {p.value!r}, the other child of the parent is {other!r}"]
    run_local("get_sibling", lambda it, n: [], j_sibling)

    def j_root(it, p):
        if p.outcome != "return":
            return [f"{p.outcome} {p.exc or p.note}"]
        cid = it.arg.cid
        while isinstance(_field(it, cid, "parent"), Node):
            cid = _field(it, cid, "parent").cid
        return [] if isinstance(p.value, Node) and p.value.cid == cid else [f"returns {p.value!r}, root is n{cid}"]
    run_local("get_root", lambda it, n: [], j_root)

    def j_root_side(it, p):
        cid = it.arg.cid
        last = None
        while isinstance(_field(it, cid, "parent"), Node):
            last = cid
            cid = _field(it, cid, "parent").cid
        if last is None:
            return []  # asking a root for its side is outside the statement
        if p.outcome != "return":
            return [f"{p.outcome} {p.exc or p.note}"]
        l = _field(it, cid, "left")
        want = "left" if isinstance(l, Node) and l.cid == last else "right"
        return [] if p.value == want else [f"returns {p.value!r}, node lives on the {want} of the root"]
    run_local("get_root_side", lambda it, n: [], j_root_side)

    # get_side(child) for child = left child / right child / unrelated node
    mm = prog.func("tree", "BinaryTreeNode.get_side")
    for which, T in [(w, u) for w in ("left", "right", "stranger") for u in universes]:
        def body(it: Interp, which=which, T=T):
            node = it.new_summary(T, "arg")
            it.arg = node
            if which == "stranger":
                ch = it.new_summary(T, "arg")
            else:
                ch = it.read_field(it.cells[node.cid], which)
                if not isinstance(ch, Node):
                    from sa.absint import PathInfeasible
                    raise PathInfeasible()
            return it.call_function(mm, [node, ch], {})
        for p in explore(prog, body, cfgb):
            probs = []
            if which == "stranger":
                if not (p.outcome == "raise" and p.exc.exc == "ValueError"):
                    probs.append(f"a node that is not a child must raise ValueError, got {p.outcome} {p.value!r}")
            elif not (p.outcome == "return" and p.value == which):
                probs.append(f"returns {p.value!r} for the {which} child ({p.outcome} {p.exc})")
            chk.verdict(not probs, "C14.R5", f"C14.R5:get_side:{which}", f"get_side({which}): {p.cond}", "; ".join(probs),
                        where=mm.where)


def run_repeated(chk: Check, prog: Program) -> None:
    """A traversal leaves nothing behind: on every concrete shape with up to four nodes, a traversal that the visitor stops
    at its k-th callback is followed by a full traversal of the same tree (each of the three orders), which must make the
    callbacks of a fresh tree - the same nodes in the defining order."""
    from .c18 import shapes, shape_str
    chk.rule("C14.R6", "a full traversal after a stopped one visits every node in the defining order (all shapes with up to 4 "
             "nodes, every stop position, every pair of orders)", minimum=100)
    node_cls = prog.cls("BinaryTreeNode")

    def expected(sh, order, path=""):
        if sh is None:
            return []
        out = []
        for step in ORDERS[order]:
            if step == "visit":
                out.append(path or "root")
            elif step == "left":
                out += expected(sh[0], order, path + "L")
            else:
                out += expected(sh[1], order, path + "R")
        return out
    for n in (1, 2, 3, 4):
        for sh in shapes(n):
            for first in ORDERS:
                for second in ORDERS:
                    for k in range(n):
                        def body(it: Interp, sh=sh, first=first, second=second, k=k):
                            names = {}

                            def build(s_, path):
                                if s_ is None:
                                    return None
                                l, r = build(s_[0], path + "L"), build(s_[1], path + "R")
                                nd = it.instantiate(node_cls, [l, r], {})
                                names[nd.cid] = path or "root"
                                return nd
                            root = build(sh, "")
                            fn = Opaque("visit_fn", truthy=True)
                            log = []
                            state = {"stop_at": k, "calls": 0}

                            def opaque_call(it2, f, args, kwargs):
                                if f is not fn:
                                    raise Unsupported("call of unknown opaque")
                                nd = args[0]
                                log.append(names.get(nd.cid, "?") if isinstance(nd, Node) else "?")
                                state["calls"] += 1
                                if state["stop_at"] is not None and state["calls"] - 1 == state["stop_at"]:
                                    return "stop"
                                return None
                            it.hooks["opaque-call"] = opaque_call
                            it.call_function(prog.func("tree", f"BinaryTreeNode.{first}"), [root, fn], {})
                            del log[:]
                            state["stop_at"], state["calls"] = None, 0
                            it.call_function(prog.func("tree", f"BinaryTreeNode.{second}"), [root, fn], {})
                            return list(log)
                        label = f"{second} after a {first} stopped at callback {k} on {shape_str(sh)}"
                        where = f"mathy_core/tree.py:BinaryTreeNode.{second}"
                        for p in explore(prog, body, {"max_updepth": 0, "max_steps": 40000}, max_paths=8):
                            if p.outcome != "return":
                                if p.outcome == "raise":
                                    chk.fail("C14.R6", f"C14.R6:{second}:raises", label, f"raises {p.exc}", witness={"shape": shape_str(sh)},
                                             where=where)
                                else:
                                    chk.undecided("C14.R6", f"C14.R6:{second}:{p.outcome}", label, str(p.note), where)
                                continue
                            want = expected(sh, second)
                            chk.verdict(p.value == want, "C14.R6", f"C14.R6:{second}:after-stopped-{first}", label,
                                        f"callbacks {p.value}, a fresh tree gives {want}",
                                        witness={"shape": shape_str(sh), "stopped_at": k, "got": p.value, "want": want}, where=where)


def run(chk: Check) -> None:
    prog = program(chk)
    chk.technique = "abstract interpretation with inductive summaries of the recursive calls; event-trace refinement " \
                    "against the specification trace of the materialised shape"
    chk.explanation = (
        "Decides by structural induction: assuming a recursive visit of a child subtree produces that subtree's "
        "callbacks at the depth it is given and answers STOP iff it was stopped, each of visit_preorder / visit_inorder "
        "/ visit_postorder, interpreted from source over all four child-presence shapes and all stop positions, emits "
        "exactly the defining permutation of [callback(self, depth), subtree(left, depth+1), subtree(right, depth+1)], "
        "forwards visitor and data unchanged, stops right after a STOP answer and returns STOP, else returns None. "
        "Specification subtree events are expanded on demand, so a loop-based implementation is judged by the same "
        "trace (descent bounded to 3 levels). Queries: to_list maps each order name to the traversal of that name and "
        "raises ValueError otherwise; find_id returns the first id match and stops; find_type collects instances in "
        "in-order; get_children / is_leaf / get_sibling / get_root / get_root_side / get_side agree with the link "
        "structure in every local configuration (ancestor chain <= 2). Repeated traversals: on every shape with up to four "
        "nodes a full traversal after a stopped one makes the callbacks of a fresh tree. Not decided: nothing of the statement beyond "
        "the induction hypothesis itself (which is the statement for smaller trees).")
    chk.assumptions = ["links of the input tree are consistent", "induction hypothesis for recursive calls on proper subtrees"]
    run_traversals(chk, prog)
    run_queries(chk, prog)
    run_repeated(chk, prog)
    chk.exhaustive = True
    chk.max_undecided = 0
