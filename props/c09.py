"""C09 - any sequence of rewrites keeps the expression equivalent to the original.

A sequence is sound iff each step is sound on every tree the previous steps can produce, i.e. on all well-formed trees
(W) - the domain over which the step judgements are made - and iff a step cannot reach into earlier states:
 R1 closure: the result of every applicable case is again in W (links, arity, numeric payloads, names)
 R2 isolation: no rule keeps or links a node that outlives the call (rule-object state, default arguments, module state)
 R3 step soundness over W: the value / equation judgements (C01.R1, C02) and the structural audit (C07.R1) of every case,
    plus the composition 'shape created by a rule' x 'print/parse round-trip table' (C04.R1)
 R4 each step works on a copy: clone_from_root returns the copy of the receiver inside a complete copy (C13.R4 judgement)
"""
from __future__ import annotations

from typing import Dict, List

from sa.printcases import analyse_printer
from sa.report import Check, REPO
from sa.summaries import Summaries
from .common import case_label, program, rule_records, where_rule
from . import c01, c02, c07, c13

FORM_MAP = {
    "Variable": ["Var"], "Const": ["Const"], "NegConst": ["NegConst"], "Const?": ["Const", "NegConst"],
    "CompactMul": ["CompactMul", "CompactMulPow"], "Multiply": ["Multiply"],
    "Multiply?": ["Multiply", "CompactMul", "CompactMulPow"], "Add": ["Add"], "Subtract": ["Subtract"],
    "Divide": ["Divide"], "Power": ["Power", "PowerConst"], "Negate": ["Negate"], "Factorial": ["Factorial"], "Sgn": ["Sgn"],
}


def run_closure(chk: Check, recs: List[dict]) -> None:
    chk.rule("C09.R1", "result of every applicable case is a well-formed tree again (closure of W)", minimum=400)
    chk.rule("C09.R2", "no rule keeps or links a node that outlives the call", minimum=400)
    for r in recs:
        if r["outcome"] == "history":
            site = r.get("note", "").split(" at ")[-1].split(":L")[0]
            chk.fail("C09.R2", f"C09.R2:{r['rule']}:history-dependent:{site}", case_label(r),
                     f"a step's outcome depends on state that earlier steps left on the rule object ({r.get('note')}): "
                     f"after a rewrite that keeps a node's id but changes its operands the stale entry drives the next step",
                     witness={"path": r["cond"][:400]}, where=where_rule(r))
            continue
        if r["outcome"] != "applied" or not r.get("result_is_node") or "judge_error" in r:
            continue
        label = case_label(r)
        probs = list(r.get("closure", [])) + [p for p in r.get("links", []) if "outlives" not in p["what"]]
        if probs:
            chk.fail("C09.R1", f"C09.R1:{r['rule']}:{probs[0]['what']}", label, f"result leaves W: {probs[0]}",
                     witness={"after": r.get("after_shape")}, where=where_rule(r))
        else:
            chk.ok("C09.R1", f"C09.R1:{r['rule']}", label, where=where_rule(r))
        iso = [p for p in r.get("links", []) if "outlives" in p["what"]]
        held = r.get("rule_holds_nodes", [])
        if iso or held:
            what = iso[0]["what"] if iso else f"the rule object keeps tree nodes in {held} after the call"
            chk.fail("C09.R2", f"C09.R2:{r['rule']}:{'shared-node' if iso else 'rule-state:' + ','.join(held)}", label,
                     f"{what}: a later step on another state reaches this one", witness={"after": r.get("after_shape")},
                     where=where_rule(r))
        else:
            chk.ok("C09.R2", f"C09.R2:{r['rule']}", label, where=where_rule(r))


def run_composition(chk: Check, recs: List[dict], shapes: List[dict]) -> None:
    chk.rule("C09.R3", "every parent/child shape a rule creates prints and re-parses to the same value", minimum=400)
    table: Dict[tuple, List[dict]] = {}
    for s in shapes:
        forms = s["forms"]
        if len(forms) == 2:
            table.setdefault((s["parent"], "left", forms[0]), []).append(s)
            table.setdefault((s["parent"], "right", forms[1]), []).append(s)
        else:
            table.setdefault((s["parent"], "right", forms[0]), []).append(s)
    for r in recs:
        if r["outcome"] != "applied" or "pairs_after" not in r:
            continue
        label = case_label(r)
        bad = None
        uncovered = None
        for parent, side, form in r["pairs_after"]:
            if parent in ("Abs",) or form in ("Abs", "Any", "Equal"):
                continue
            if not any(table.get((parent, side, f)) for f in FORM_MAP.get(form, [])):
                # no shape of the printer's round-trip domain stands for this pair.  A pair the input tree had already (a
                # clone of it, or context the rewrite re-linked) is not created by the rule: it is a matter of the input domain
                before = r.get("pairs_before")
                if before is None or [parent, side, form] not in before:
                    uncovered = (parent, side, form)
            for f in FORM_MAP.get(form, []):
                for s in table.get((parent, side, f), []):
                    if s["outcome"] != "equal":
                        bad = (parent, side, form, s)
                        break
                if bad:
                    break
            if bad:
                break
        if bad:
            parent, side, form, s = bad
            chk.fail("C09.R3", f"C09.R3:print:{r['rule']}:{parent}.{side}={form}", label,
                     f"the rewrite creates {parent} with a {form} as {side} operand; such a tree prints as {s.get('text')!r} "
                     f"which re-parses as {s.get('back_term') or s.get('note')}: the next state does not print and re-parse",
                     witness={"created_by": r["rule"], "after": r.get("after_shape"), "text": s.get("text")}, where=where_rule(r))
        elif uncovered:
            chk.undecided("C09.R3", f"C09.R3:print:{r['rule']}:{uncovered[0]}.{uncovered[1]}={uncovered[2]}:uncovered", label,
                          f"the rewrite creates {uncovered[0]} with a {uncovered[2]} as {uncovered[1]} operand, a pair outside the "
                          f"shape domain of the printer round trip", where_rule(r))
        else:
            chk.ok("C09.R3", f"C09.R3:print:{r['rule']}", label, where=where_rule(r))


def run(chk: Check) -> None:
    prog = program(chk)
    S = Summaries(prog)
    chk.technique = "reduction of sequence soundness to step judgements over all well-formed trees (abstract interpretation " \
                    "cases) + closure, isolation and rule-output x printer-table composition"
    chk.explanation = (
        "Decides the two facts that make the induction over sequences go through, and re-evaluates the step judgements "
        "under this property: (R1) the result of every applicable case of every rule is again a well-formed tree, so the "
        "per-step judgements - which quantify over all well-formed trees, not only parser-shaped ones - apply to every "
        "state reachable by rewriting; (R2) no rule keeps a node in its own state or links a node that outlives the call, "
        "and (R4) clone_from_root returns the copy of the receiver inside a complete fresh copy, so a step cannot alter an "
        "earlier state; (R3) every case preserves the value / solution set (same engine and cases as C01.R1 and C02) and "
        "is structurally sound (C07.R1), and every parent/child shape a rule creates is in the verified part of the "
        "print/parse round-trip table (C04.R1). Not decided: anything quantitative about sequences (lengths, reachability "
        "of particular states, floating-point drift of folded constants over many steps).")
    chk.assumptions = ["W as in C01", "sequence soundness = step soundness over W + closure + isolation (induction)"]
    recs = rule_records(chk)
    run_closure(chk, recs)
    c01.run_r1(chk, recs, pid="C09s")
    # rename the re-evaluated step rules under this property
    for o in chk.obls:
        if o.rule.startswith("C09s"):
            o.rule = "C09.R3"
            o.key = o.key.replace("C09s.R1", "C09.R3:value")
    chk.min_instances.pop("C09s.R1", None)
    chk.rule_text.pop("C09s.R1", None)
    c02.run_cases(chk, recs, pid="C09e")
    for o in chk.obls:
        if o.rule.startswith("C09e"):
            o.key = o.key.replace(o.rule, "C09.R3:equation")
            o.rule = "C09.R3"
    for k in [k for k in chk.min_instances if k.startswith("C09e")]:
        chk.min_instances.pop(k)
        chk.rule_text.pop(k, None)
    shapes = analyse_printer(str(REPO))
    run_composition(chk, recs, shapes)
    chk.rule("C09.R4", "clone_from_root returns the copy of the receiver in a complete fresh copy (each step works on a copy)",
             minimum=20)
    n0 = len(chk.obls)
    c13.run_r4(chk, prog, S)
    for o in chk.obls[n0:]:
        o.rule = "C09.R4"
        o.key = o.key.replace("C13.R4", "C09.R4")
    chk.min_instances.pop("C13.R4", None)
    chk.rule_text.pop("C13.R4", None)
    # contracts of other parts of the library this check takes for granted (summaries, token model, reference grammar):
    # the clauses that check the source against them, replayed under this property (props/contracts.py)
    from .contracts import run_contracts
    run_contracts(chk, prog, ['clone', 'evaluate', 'traversal', 'factor', 'tokenizer', 'parser'])
    chk.exhaustive = True
    chk.max_undecided = 0
