"""C02 - rewrites preserve the solution set of equations.

R1 balanced move: L - R == u * (L' - R') for a unit u that is +-1 or a number symbol established non-zero by the
   path condition; ancestor chain between the moved node and '=' materialised up to the tier bound.
R2 equation flip (CommutativeSwap on '=').      R3 no other rule rewrites the '=' node itself into a non-equation.
Rewriting inside one side follows from C01.R1 by congruence and the C07 context audit.
"""
from __future__ import annotations

from typing import List

from sa.report import Check
from .common import case_label, program, rule_records, where_rule


def run_cases(chk: Check, recs: List[dict], pid: str = "C02") -> None:
    chk.rule(f"{pid}.R1", "balanced move: new equation is a non-zero multiple / +-1 of the old one (per chain context)",
             minimum=60)
    chk.rule(f"{pid}.R2", "flipping an equation keeps both sides", minimum=2)
    chk.rule(f"{pid}.R3", "no rule other than flip / balanced move rewrites the '=' node itself", minimum=1)
    seen_r3 = 0
    for r in recs:
        if r["outcome"] == "history" and r["rule"] in ("BalancedMoveRule", "CommutativeSwapRule"):
            site = r.get("note", "").split(" at ")[-1].split(":L")[0]
            chk.fail(f"{pid}.R1", f"{pid}.R1:{r['rule']}:history-dependent:{site}", case_label(r),
                     f"the classification of the node (top-level addend / coefficient) is read from state that earlier calls "
                     f"left on the rule object ({r.get('note')}): after a rewrite that keeps node ids - every rewrite does - a "
                     f"stale 'addend' answer moves a term out of a quotient or product and changes the solution set",
                     witness={"path": r["cond"][:400]}, where=where_rule(r, "get_type"))
            continue
        if r["outcome"] != "applied" or not r.get("result_is_node") or "judge_error" in r:
            continue
        v = r["value"]
        if not v.get("equation"):
            continue
        rule = r["rule"]
        rid = f"{pid}.R1" if rule == "BalancedMoveRule" else (f"{pid}.R2" if rule == "CommutativeSwapRule" else f"{pid}.R3")
        label = case_label(r)
        construct = f"{label}: {r['before_term']}  ->  {r['after_term']}"
        key = f"{rid}:{rule}:{'ret' + str(r.get('type_return_index'))}:{r.get('before_shape')}"
        if v["verdict"] == "equal":
            chk.ok(rid, key, construct, f"unit {v.get('unit')}", where_rule(r))
        elif v["verdict"] == "differ":
            chk.fail(rid, key, construct, f"solution set changes: {v.get('why')}; path: {r['cond'][:300]}",
                     witness={"assignment": v.get("witness"), "before": r["before_term"], "after": r["after_term"],
                              "facts": r.get("facts")}, where=where_rule(r))
        else:
            chk.undecided(rid, key, construct, v.get("why", ""), where_rule(r))
        if rid.endswith("R3"):
            seen_r3 += 1
    # R3 has zero instances when no other rule accepts an '=' node: record the non-applicable cases as its instances
    for r in recs:
        if r["outcome"] == "not-applicable" and r["rule"] not in ("BalancedMoveRule", "CommutativeSwapRule") \
                and r.get("arg_shape", "").startswith("Equal"):
            chk.ok(f"{pid}.R3", f"{pid}.R3:{r['rule']}:refuses-equal", case_label(r), "rule refuses the '=' node",
                   where_rule(r, "can_apply_to"))


def run(chk: Check) -> None:
    prog = program(chk)
    chk.technique = "abstract interpretation of BalancedMove/CommutativeSwap over materialised ancestor chains + " \
                    "normal-form comparison of L-R up to a non-zero unit"
    from sa.rulecases import UPDEPTH
    depth = UPDEPTH[chk.tier]
    chk.explanation = (
        "Decides: for every applicable case of BalancedMove (both move types), with the chain of ancestors between "
        f"the moved node and the '=' root materialised up to {depth} levels above the node (every kind x side of "
        "each intermediate node), the new equation L' = R' satisfies L - R == u * (L' - R') with u = +-1 or a number "
        "symbol that the path condition establishes non-zero (so the solution sets coincide wherever both are "
        "defined); flipping an equation keeps both sides; no other rule rewrites the '=' node itself. A 'differ' "
        "verdict carries an assignment at which exactly one of the two equations holds (computed on the term "
        "algebra) or the unit whose non-zero-ness is not established. Rewrites strictly inside one side are covered "
        "by C01.R1 + C07 (congruence); 'holds' is exact equality of the sides (EqualExpression.operate returns only when the "
        "sides are equal). Not decided: numeric truth of an equation; chains longer than the bound; "
        "chained equations a = b = c.")
    chk.assumptions = ["W: '=' occurs only at the root", f"ancestor chain bound {depth}", "clone_from_root summary (C13.R4)"]
    recs = rule_records(chk)
    run_cases(chk, recs)
    # what it means for an equation to hold: Equal.operate accepts exactly equal sides (the clause of C05, under this
    # property's rule id) - the solution-set comparison above is about exactly that relation
    from .c05 import run_operate
    chk.rule("C02.R4", "an equation holds exactly when its two sides are equal (EqualExpression.operate)", minimum=2)
    run_operate(chk, prog, only=("EqualExpression",), r1="C02.R4", r6=None)
    # contracts of other parts of the library this check takes for granted (summaries, token model, reference grammar):
    # the clauses that check the source against them, replayed under this property (props/contracts.py)
    from .contracts import run_contracts
    run_contracts(chk, prog, ['clone', 'evaluate'])
    chk.exhaustive = True
    chk.max_undecided = 0
