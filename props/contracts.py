"""Contracts that several checks rely on, discharged under every property that relies on them.

A check that interprets one part of the library takes other parts by their contract: the rule analysis summarises
clone() / clone_from_root() / evaluate() / find_type() / factor(); the parser analysis starts from tokens; the printer
round trip and the problem generators use the specification tokenizer and the reference grammar.  The clause that
checks the source against such a contract belongs to one property (C13, C05, C14, C16, C11, C03, C07).  A change inside
a helper then breaks every property that relies on the helper, but only the owning property's check would see it.

`run_contracts(chk, prog, names)` runs the named clauses (once per source digest - the obligations are cached under
/verif/.cache) and replays their verdicts under the host property's rule id `<pid>.K<n>`:

  * a failing obligation of the clause is a failing obligation of the host (same key suffix, the host's rule id), unless
    it is a *known finding* of the owning property - then it is an `info` line that names the finding;
  * undecided obligations stay undecided;
  * the passing ones are summarised by one obligation per clause rule (their number is in the detail).
"""
from __future__ import annotations

import hashlib
import json
import os
from typing import Any, Callable, Dict, List, Tuple

from sa.model import Program
from sa.report import CACHE, Check, Obligation, REPO, VERIF
from sa.rulecases import _self_digest, source_digest
from sa.summaries import Summaries


def _clone(c: Check, prog: Program) -> None:
    from . import c13
    S = Summaries(prog)
    c13.run_r1(c, prog)
    c13.run_r2(c, prog, S)
    c13.run_r4(c, prog, S)


def _evaluate(c: Check, prog: Program) -> None:
    from . import c05
    c05.run_operate(c, prog)
    c05.run_plumbing(c, prog)
    c05.run_variable(c, prog)
    c05.run_literal_text(c, prog)


def _traversal(c: Check, prog: Program) -> None:
    from . import c14
    c14.run_traversals(c, prog)
    c14.run_queries(c, prog)


def _factor(c: Check, prog: Program) -> None:
    from . import c16
    c16.run_factor(c, prog, Summaries(prog))


def _tokenizer(c: Check, prog: Program) -> None:
    from . import c11
    c.rule("C11.R1", "tokenizer == specification on symbolic strings", minimum=300)
    for r in ("C11.R2", "C11.R3", "C11.R4", "C11.R5"):
        c.rule(r, "classification of a disagreement", minimum=0)
    U = c11.universe()
    for n in (0, 1, 2):
        c11.run_tokenize(c, prog, n, U, f"U{n}")
    for n in (3, 4):
        c11.run_tokenize(c, prog, n, frozenset(c11.SMALL_ALPHABET), f"S{n}")


def _parser(c: Check, prog: Program) -> None:
    from sa.parsecases import analyse_parser
    from . import c03
    recs = analyse_parser(str(REPO), 5)
    c03.run_records(c, recs)
    c03.run_ladder(c, prog)
    from .c05 import run_literal_text
    run_literal_text(c, prog, "C03.R8")


def _links(c: Check, prog: Program) -> None:
    from . import c07
    from .common import rule_records
    c07.run_cases(c, rule_records(c))


def _printer(c: Check, prog: Program) -> None:
    from sa.printcases import analyse_printer
    from . import c04
    c04.run_roundtrip(c, analyse_printer(str(REPO), tier="quick"))
    c04.run_number_text(c, prog)


CLAUSES: Dict[str, Tuple[str, Callable[[Check, Program], None], str]] = {
    "clone": ("C13", _clone, "clone() / clone_from_root() return a faithful, independent copy and never raise (C13.R1-R4)"),
    "evaluate": ("C05", _evaluate, "operate / evaluate / literal conversion compute the class's operator on the children's "
                                   "values (C05.R1-R7)"),
    "traversal": ("C14", _traversal, "traversals, find_type, find_id and the link queries (C14.R1, R5)"),
    "factor": ("C16", _factor, "factor(): every entry is a factor pair of the value, all divisor pairs for a positive value (C16.R4)"),
    "tokenizer": ("C11", _tokenizer, "the tokenizer agrees with the specification tokenizer on symbolic strings (C11.R1-R5)"),
    "parser": ("C03", _parser, "the parser accepts exactly the documented grammar and reads it with the documented value "
                               "(C03.R1-R4, token sequences up to 5)"),
    "links": ("C07", _links, "every rewritten tree has consistent links, nothing dropped or invented (C07.R1-R7)"),
    "printer": ("C04", _printer, "printing and re-parsing preserves the value (C04.R1, R4, quick shape domain)"),
}


def _known_keys(pid: str) -> Dict[str, str]:
    p = VERIF / "known_findings.json"
    if not p.exists():
        return {}
    out = {}
    for e in json.loads(p.read_text()).get("findings", []):
        if e.get("property") == pid and e.get("status") == "known":
            out[e["key"]] = e.get("what", "")
    return out


def _compute(name: str, prog: Program) -> List[dict]:
    owner, fn, _ = CLAUSES[name]
    rec = Check(owner, "quick")
    fn(rec, prog)
    out = []
    for o in rec.obls:
        if o.status == "ok":
            continue
        out.append({"rule": o.rule, "key": o.key, "construct": o.construct[:600], "status": o.status, "detail": o.detail[:900],
                    "where": o.where})
    counts: Dict[str, int] = {}
    for o in rec.obls:
        if o.status == "ok":
            counts[o.rule] = counts.get(o.rule, 0) + 1
    short = {rid: mn for rid, mn in rec.min_instances.items() if sum(1 for o in rec.obls if o.rule == rid and o.status != "info") < mn}
    return [{"__counts__": counts, "__short__": short}] + out


def clause_records(name: str, prog: Program) -> List[dict]:
    digest = source_digest(prog, extra="contract:" + name + _self_digest() + _props_digest())
    cache = CACHE / f"contract-{name}-{digest}.json"
    if cache.exists():
        try:
            return json.loads(cache.read_text())
        except Exception:
            pass
    try:
        recs = _compute(name, prog)
    except Exception as e:  # noqa: BLE001 - a clause that cannot be completed leaves the host undecided, it does not abort it
        owner = CLAUSES[name][0]
        return [{"__counts__": {}, "__short__": {}},
                {"rule": f"{owner}.*", "key": "not-completed", "construct": f"{name} clause of {owner}", "status": "undecided",
                 "detail": f"the clause could not be completed: {type(e).__name__}: {str(e)[:300]}", "where": ""}]
    try:
        cache.parent.mkdir(exist_ok=True)
        if str(prog.repo) == "/repo":
            for old in cache.parent.glob(f"contract-{name}-*.json"):
                old.unlink()
        cache.write_text(json.dumps(recs, default=str))
    except Exception:
        pass
    return recs


_PD: Dict[str, str] = {}


def _props_digest() -> str:
    if "d" not in _PD:
        h = hashlib.sha256()
        d = os.path.dirname(__file__)
        for fn in sorted(os.listdir(d)):
            if fn.endswith(".py"):
                with open(os.path.join(d, fn), "rb") as f:
                    h.update(f.read())
        _PD["d"] = h.hexdigest()[:12]
    return _PD["d"]


def run_contracts(chk: Check, prog: Program, names: List[str]) -> None:
    """Replay the named clauses under chk's property (rule ids <pid>.K1 ...)."""
    for i, name in enumerate(names, 1):
        owner, _, text = CLAUSES[name]
        if owner == chk.pid:
            continue
        rid = f"{chk.pid}.K{i}"
        chk.rule(rid, f"contract this check relies on: {text}", minimum=1)
        recs = clause_records(name, prog)
        head, rest = recs[0], recs[1:]
        known = _known_keys(owner)
        n_ok = sum(head["__counts__"].values())
        where = f"clause of {owner} ({name})"
        if head["__short__"]:
            chk.undecided(rid, f"{rid}:{name}:coverage", f"{name} clause", f"rules below their instance minimum: {head['__short__']}", where)
        if n_ok:
            chk.ok(rid, f"{rid}:{name}", f"{name} clause of {owner}: {n_ok} obligations hold",
                   f"per rule: {head['__counts__']}", where)
        for r in rest:
            key = f"{rid}:{name}:{r['key']}"
            if r["status"] == "fail":
                if r["key"] in known:
                    chk.info(rid, key, r["construct"], f"known finding of {owner}: {known[r['key']][:200]}", r["where"])
                else:
                    chk.fail(rid, key, r["construct"], f"[{r['rule']}] {r['detail']}", witness={"clause": name, "owner": owner},
                             where=r["where"])
            elif r["status"] == "undecided":
                chk.undecided(rid, key, r["construct"], f"[{r['rule']}] {r['detail']}", r["where"])
