"""C18 - tree layout: decided clauses only (the tidy-tree geometry is numeric behaviour of a loop over data).

R1 per-call scratch state: a scratch attribute that is read 'if present' (getattr with a default) and stored with a
   call-specific value must be cleared on every node at the start of its visit in the same layout() call; otherwise a
   second layout() of the same nodes reads the previous call's value.
R2 depth -> y: measure assigns node.y = level and recurses with level + 1; transform multiplies y by the unit once.
R3 placement: transform puts the left child at x - offset and the right child at x + offset (same offset), x scaled once.
R4 bounds: after visiting a node each of min/max X/Y equals min/max of its previous value and the node's coordinate, for
   every prior state of the measurement; width/height/centre derive from them.
"""
from __future__ import annotations

import ast
import math
import random
from typing import Dict, List, Optional

from sa import algebra as A
from sa.absint import (AbsRaise, Interp, Node, Num, Opaque, Rec, Unsupported, _MISSING, explore)
from sa.model import Program, unparse
from sa.report import AnalysisError, Check
from .common import program

T = frozenset(["BinaryTreeNode"])


def run_scratch(chk: Check, prog: Program) -> None:
    chk.rule("C18.R1", "scratch attributes read 'if present' are cleared per node before use in the same call", minimum=2)
    mod = prog.module("layout")
    meas = prog.func("layout", "TreeLayout.measure")
    reads: Dict[str, List[str]] = {}
    for f in mod.classes["TreeLayout"].methods.values():
        for n in ast.walk(f.node):
            if isinstance(n, ast.Call) and isinstance(n.func, ast.Name) and n.func.id == "getattr" and len(n.args) == 3 \
                    and isinstance(n.args[1], ast.Constant):
                reads.setdefault(n.args[1].value, []).append(f"{f.qualname}: {unparse(n)}")
    stores: Dict[str, List[ast.expr]] = {}
    for f in mod.classes["TreeLayout"].methods.values():
        for n in ast.walk(f.node):
            if isinstance(n, ast.Assign):
                for t in n.targets:
                    if isinstance(t, ast.Attribute) and t.attr in reads:
                        stores.setdefault(t.attr, []).append(n.value)
    # statements of measure before its first recursive call
    first_rec = None
    prelude: List[ast.stmt] = []
    for st in meas.node.body:
        if any(isinstance(c, ast.Call) and isinstance(c.func, ast.Attribute) and c.func.attr == "measure"
               for c in ast.walk(st)):
            first_rec = st
            break
        prelude.append(st)
    param = meas.node.args.args[1].arg if len(meas.node.args.args) > 1 else "node"
    for attr, sites in sorted(reads.items()):
        vals = stores.get(attr, [])
        call_specific = [v for v in vals if not isinstance(v, ast.Constant) and not (
            isinstance(v, ast.UnaryOp) and isinstance(v.operand, ast.Constant))]
        key = f"C18.R1:{attr}"
        construct = f"scratch attribute '{attr}' read if present at {len(sites)} site(s)"
        if not call_specific:
            defaults = set()
            chk.ok("C18.R1", key, construct, f"only constants are ever stored ({[unparse(v) for v in vals]}): no dependence on "
                   f"an earlier call", meas.where)
            continue
        # path-sensitive: on every path of measure(node) up to its first recursive call - and on every earlier
        # return - a value left on node.<attr> by a previous layout() call must be gone
        stale = Opaque("left-by-a-previous-layout-call", truthy=True)

        class _Stop(Exception):
            pass

        def body(it: Interp, attr=attr):
            layout = Rec(prog.cls("TreeLayout"))
            node = it.new_summary(T, "arg")
            it.arg = node
            it._set_entry(it.cells[node.cid], attr, stale)
            top = [True]

            def h(it2, info, args, kwargs):
                if top[0]:
                    top[0] = False
                    return NotImplemented
                raise _Stop()
            it.hooks["TreeLayout.measure"] = h
            try:
                it.call_function(meas, [layout, node, Num(("sym", "level"))], {})
                it.how = "returns before visiting any child"
            except _Stop:
                it.how = "reaches its first recursive call"
            return None

        bad = None
        n_paths = 0
        for p in explore(prog, body, {"tree_mode": "binary", "max_updepth": 0, "max_downdepth": 1}):
            if p.outcome != "return":
                continue
            n_paths += 1
            it = p.interp
            v = it.cells[it.arg.cid].cur.get(attr, _MISSING)
            if v is stale:
                bad = (p.cond, it.how)
                break
        if bad is None and n_paths:
            chk.ok("C18.R1", key, construct, f"{param}.{attr} is cleared on all {n_paths} paths before the children are visited "
                   f"or the visit returns", meas.where)
        elif bad is None:
            chk.undecided("C18.R1", key, construct, "no path of measure could be interpreted", meas.where)
        else:
            chk.fail("C18.R1", key, construct,
                     f"'{attr}' is stored with a call-specific value ({[unparse(v) for v in call_specific]}) and read with "
                     f"getattr(..., '{attr}', default); on the path [{bad[0]}] measure {bad[1]} while the node still carries "
                     f"the value of a previous layout() call: a second layout() of the same tree follows threads of the first "
                     f"call and assigns different coordinates",
                     witness={"reads": sites[:4], "path": bad[0], "example": "layout the same tree twice: coordinates differ"},
                     where=meas.where)


def run_measure_depth(chk: Check, prog: Program) -> None:
    chk.rule("C18.R2", "measure: node.y = level, children measured at level + 1; transform scales once", minimum=2)
    meas = prog.func("layout", "TreeLayout.measure")

    def body(it: Interp):
        layout = Rec(prog.cls("TreeLayout"))
        node = it.new_summary(T, "arg")
        it.arg = node
        it.calls = []
        top = [True]

        def h(it2, info, args, kwargs):
            if top[0]:
                top[0] = False
                return NotImplemented
            it2.calls.append((args[1] if len(args) > 1 else None, args[2] if len(args) > 2 else kwargs.get("level")))
            raise _Stop()
        it.hooks["TreeLayout.measure"] = h
        lvl = Num(("sym", "level"))
        try:
            it.call_function(meas, [layout, node, lvl], {})
        except _Stop:
            pass
        return None

    class _Stop(Exception):
        pass

    # only the prefix up to the first recursive call is needed: y assignment and the level argument
    import sa.absint as absint
    for p in explore(prog, body, {"tree_mode": "binary", "max_updepth": 0, "max_downdepth": 1}):
        it = p.interp
        if p.outcome != "return":
            chk.undecided("C18.R2", "C18.R2:measure", p.cond, f"{p.outcome} {p.exc or p.note}", meas.where)
            continue
        y = it.cells[it.arg.cid].cur.get("y", _MISSING)
        probs = []
        if it.calls or True:
            if not (isinstance(y, Num) and y.term == ("sym", "level")):
                if it.calls:
                    probs.append(f"node.y is {y!r} when the children are measured, expected the level")
            for ch, lv in it.calls[:1]:
                t = it.to_term(lv)
                if t is None or not A.equal_nf(t, ("add", ("sym", "level"), A.lit(1))):
                    probs.append(f"child measured at level {lv!r}, expected level + 1")
        if it.calls:
            chk.verdict(not probs, "C18.R2", "C18.R2:measure", f"measure: {p.cond}", "; ".join(probs), where=meas.where)


def run_transform(chk: Check, prog: Program) -> None:
    chk.rule("C18.R3", "transform: x scaled once, children at x -/+ offset, y scaled once, arguments forwarded", minimum=1)
    chk.rule("C18.R4", "bounds after a node == min/max of previous bounds and the node's coordinates; derived fields", minimum=4)
    tr = prog.func("layout", "TreeLayout.transform")

    def body(it: Interp):
        layout = Rec(prog.cls("TreeLayout"))
        node = it.new_summary(T, "arg")
        it.arg = node
        cell = it.cells[node.cid]
        it._set_entry(cell, "y", Num(("sym", "depth")))
        it._set_entry(cell, "offset", Num(("sym", "off")))
        it._set_entry(cell, "x", None)
        m = Rec(prog.cls("TreeMeasurement"))
        for f in ("minX", "maxX", "minY", "maxY"):
            m.fields[f] = Num(("sym", f))
        for f in ("width", "height", "centerX", "centerY"):
            m.fields[f] = Num(("sym", "old_" + f))
        it.m = m
        it.calls = []
        top = [True]

        def h(it2, info, args, kwargs):
            if top[0]:
                top[0] = False
                return NotImplemented
            it2.calls.append(list(args[1:]))
            return args[5] if len(args) > 5 else m
        it.hooks["TreeLayout.transform"] = h
        return it.call_function(tr, [layout, node, Num(("sym", "x")), Num(("sym", "ux")), Num(("sym", "uy")), m], {})

    rnd = random.Random(5)
    for p in explore(prog, body, {"tree_mode": "binary", "max_updepth": 0, "max_downdepth": 1}):
        it = p.interp
        label = f"transform: {p.cond}"
        if p.outcome != "return":
            chk.fail("C18.R3", "C18.R3:transform:raise", label, f"{p.outcome} {p.exc or p.note}", where=tr.where)
            continue
        cell = it.cells[it.arg.cid]
        probs = []
        nx, ny = it.to_term(cell.cur.get("x")), it.to_term(cell.cur.get("y"))
        if nx is None or not A.equal_nf(nx, ("mul", ("sym", "x"), ("sym", "ux"))):
            probs.append(f"node.x = {cell.cur.get('x')!r}, expected x * unit_x")
        if ny is None or not A.equal_nf(ny, ("mul", ("sym", "depth"), ("sym", "uy"))):
            probs.append(f"node.y = {cell.cur.get('y')!r}, expected depth * unit_y")
        kids = [cell.cur.get("left", cell.entry.get("left")), cell.cur.get("right", cell.entry.get("right"))]
        want = []
        for ch, sign in zip(kids, ("sub", "add")):
            want.append((ch, (sign, ("sym", "x"), ("sym", "off"))))
        if len(it.calls) != 2:
            probs.append(f"{len(it.calls)} recursive calls, expected one per child slot")
        else:
            for (ch, wx), call in zip(want, it.calls):
                got_node = call[0]
                ok_node = (got_node is None and ch is None) or (isinstance(got_node, Node) and isinstance(ch, Node) and got_node.cid == ch.cid)
                gx = it.to_term(call[1]) if len(call) > 1 else None
                if not ok_node:
                    probs.append("children visited in the wrong slots")
                elif gx is None or not A.equal_nf(gx, wx):
                    probs.append(f"child placed at {A.term_str(gx) if gx else call[1]!r}, expected {A.term_str(wx)}")
                if len(call) < 5 or it.to_term(call[2]) != ("sym", "ux") or it.to_term(call[3]) != ("sym", "uy") or call[4] is not it.m:
                    probs.append("unit multipliers / measurement not forwarded unchanged")
        chk.verdict(not probs, "C18.R3", "C18.R3:transform", label, "; ".join(probs), witness={"problems": probs}, where=tr.where)
        # ---- bounds: compare final fields with min/max semantics on samples that satisfy the path facts
        from sa.rulecases import _fact_env
        subst, ok, cons = _fact_env(it)
        fields = {f: it.to_term(it.m.fields.get(f)) for f in ("minX", "maxX", "minY", "maxY", "width", "height", "centerX", "centerY")}
        bad = None
        n_ok = 0
        syms = [("sym", s) for s in ("x", "ux", "uy", "depth", "off", "minX", "maxX", "minY", "maxY")]
        for i in range(4000):
            env = {s: float(rnd.choice([-3, -1, 0, 1, 2, 5, 7, 10000, 0.5])) for s in syms}
            env[("sym", "old_width")] = env[("sym", "old_height")] = env[("sym", "old_centerX")] = env[("sym", "old_centerY")] = 0.0
            if not ok(env):
                continue
            n_ok += 1
            px = env[("sym", "x")] * env[("sym", "ux")]
            py = env[("sym", "depth")] * env[("sym", "uy")]
            exp = {"minX": min(env[("sym", "minX")], px), "maxX": max(env[("sym", "maxX")], px),
                   "minY": min(env[("sym", "minY")], py), "maxY": max(env[("sym", "maxY")], py)}
            exp["width"] = abs(exp["minX"] - exp["maxX"])
            exp["height"] = abs(exp["minY"] - exp["maxY"])
            exp["centerX"] = exp["minX"] + exp["width"] / 2
            exp["centerY"] = exp["minY"] + exp["height"] / 2
            for f, t in fields.items():
                if t is None:
                    bad = (f, "not a number", env)
                    break
                try:
                    v = A.evaluate(A.apply_subst(t, subst), env)
                except A.Undefined:
                    continue
                if not math.isclose(v, exp[f], rel_tol=1e-9, abs_tol=1e-9):
                    bad = (f, f"{f} = {v}, expected {exp[f]}", env)
                    break
            if bad or n_ok >= 60:
                break
        if bad:
            f, why, env = bad
            chk.fail("C18.R4", f"C18.R4:transform:{f}", label,
                     f"after visiting a node the measurement's {why} (true bounding value) on this path",
                     witness={"before": {k[1]: v for k, v in env.items() if k[1] in ("minX", "maxX", "minY", "maxY")},
                              "node": {"x*ux": env[('sym', 'x')] * env[('sym', 'ux')], "depth*uy": env[('sym', 'depth')] * env[('sym', 'uy')]},
                              "path": p.cond}, where=tr.where)
        elif n_ok >= 5:
            chk.ok("C18.R4", "C18.R4:transform", label, f"{n_ok} admissible prior states agree", tr.where)
        else:
            chk.undecided("C18.R4", "C18.R4:transform", label, "too few admissible samples for this path", tr.where)


def run(chk: Check) -> None:
    prog = program(chk)
    chk.technique = "AST/dataflow rule for per-call scratch state; symbolic interpretation of measure/transform for one node " \
                    "with recursive calls summarised"
    chk.explanation = (
        "Decides only what is visible in the shape of the code: (R1) every scratch attribute that the layout reads 'if "
        "present' and stores with a call-specific value is cleared on each node at the start of its visit (so a second "
        "layout() of the same nodes cannot follow the first call's threads); (R2) measure assigns y = level and measures "
        "children at level + 1; (R3) transform scales x and y once, places the left child at x - offset and the right child "
        "at x + offset with the same offset and forwards units and measurement; (R4) for every prior state of the "
        "measurement (including the inverted initial one) and every path, min/max X/Y become the min/max of the previous "
        "value and the node's coordinate, and width/height/centre derive from them. NOT decided: the tidy-tree geometry "
        "itself - separation of at least one unit, left-to-right order per level, contour threading, mirror symmetry - is "
        "numeric behaviour of a loop over data that no static argument in reach bounds.")
    chk.not_decided = ["separation >= 1 unit", "level order", "contour threading correctness", "mirror symmetry",
                       "offset positivity (left strictly left)"]
    chk.assumptions = ["recursive calls on children behave like the call analysed (induction)"]
    run_scratch(chk, prog)
    run_measure_depth(chk, prog)
    run_transform(chk, prog)
    chk.max_undecided = 0
