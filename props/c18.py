"""C18 - tree layout: decided clauses only (the tidy-tree geometry is numeric behaviour of a loop over data).

R1 per-call scratch state: a scratch attribute that is read 'if present' (getattr with a default) and stored with a
   call-specific value must be cleared on every node at the start of its visit in the same layout() call; otherwise a
   second layout() of the same nodes reads the previous call's value.
R2 depth -> y: measure assigns node.y = level and recurses with level + 1; transform multiplies y by the unit once.
R3 placement: transform puts the left child at x - offset and the right child at x + offset (same offset), x scaled once.
R4 bounds: after visiting a node each of min/max X/Y equals min/max of its previous value and the node's coordinate, for
   every prior state of the measurement; width/height/centre derive from them.
"""
from __future__ import annotations

import ast
import math
import random
from typing import Dict, List, Optional
from sa.absint import Rec as _RecT

from sa import algebra as A
from sa.absint import (AbsRaise, Interp, Node, Num, Opaque, Rec, Unsupported, _MISSING, explore)
from sa.model import Program, unparse
from sa.report import AnalysisError, Check
from .common import program

T = frozenset(["BinaryTreeNode"])


def run_scratch(chk: Check, prog: Program) -> None:
    chk.rule("C18.R1", "scratch attributes read 'if present' are cleared per node before use in the same call", minimum=2)
    mod = prog.module("layout")
    meas = prog.func("layout", "TreeLayout.measure")
    reads: Dict[str, List[str]] = {}
    for f in mod.classes["TreeLayout"].methods.values():
        for n in ast.walk(f.node):
            if isinstance(n, ast.Call) and isinstance(n.func, ast.Name) and n.func.id == "getattr" and len(n.args) == 3 \
                    and isinstance(n.args[1], ast.Constant):
                reads.setdefault(n.args[1].value, []).append(f"{f.qualname}: {unparse(n)}")
    stores: Dict[str, List[ast.expr]] = {}
    for f in mod.classes["TreeLayout"].methods.values():
        for n in ast.walk(f.node):
            if isinstance(n, ast.Assign):
                for t in n.targets:
                    if isinstance(t, ast.Attribute) and t.attr in reads:
                        stores.setdefault(t.attr, []).append(n.value)
    # statements of measure before its first recursive call
    first_rec = None
    prelude: List[ast.stmt] = []
    for st in meas.node.body:
        if any(isinstance(c, ast.Call) and isinstance(c.func, ast.Attribute) and c.func.attr == "measure"
               for c in ast.walk(st)):
            first_rec = st
            break
        prelude.append(st)
    param = meas.node.args.args[1].arg if len(meas.node.args.args) > 1 else "node"
    for attr, sites in sorted(reads.items()):
        vals = stores.get(attr, [])
        call_specific = [v for v in vals if not isinstance(v, ast.Constant) and not (
            isinstance(v, ast.UnaryOp) and isinstance(v.operand, ast.Constant))]
        key = f"C18.R1:{attr}"
        construct = f"scratch attribute '{attr}' read if present at {len(sites)} site(s)"
        if not call_specific:
            defaults = set()
            chk.ok("C18.R1", key, construct, f"only constants are ever stored ({[unparse(v) for v in vals]}): no dependence on "
                   f"an earlier call", meas.where)
            continue
        # path-sensitive: on every path of measure(node) up to its first recursive call - and on every earlier
        # return - a value left on node.<attr> by a previous layout() call must be gone
        stale = Opaque("left-by-a-previous-layout-call", truthy=True)

        class _Stop(Exception):
            pass

        def body(it: Interp, attr=attr):
            layout = Rec(prog.cls("TreeLayout"))
            node = it.new_summary(T, "arg")
            it.arg = node
            it._set_entry(it.cells[node.cid], attr, stale)
            top = [True]

            def h(it2, info, args, kwargs):
                if top[0]:
                    top[0] = False
                    return NotImplemented
                raise _Stop()
            it.hooks["TreeLayout.measure"] = h
            try:
                it.call_function(meas, [layout, node, Num(("sym", "level"))], {})
                it.how = "returns before visiting any child"
            except _Stop:
                it.how = "reaches its first recursive call"
            return None

        bad = None
        n_paths = 0
        for p in explore(prog, body, {"tree_mode": "binary", "max_updepth": 0, "max_downdepth": 1}):
            if p.outcome != "return":
                continue
            n_paths += 1
            it = p.interp
            v = it.cells[it.arg.cid].cur.get(attr, _MISSING)
            if v is stale:
                bad = (p.cond, it.how)
                break
        if bad is None and n_paths:
            chk.ok("C18.R1", key, construct, f"{param}.{attr} is cleared on all {n_paths} paths before the children are visited "
                   f"or the visit returns", meas.where)
        elif bad is None:
            chk.undecided("C18.R1", key, construct, "no path of measure could be interpreted", meas.where)
        else:
            chk.fail("C18.R1", key, construct,
                     f"'{attr}' is stored with a call-specific value ({[unparse(v) for v in call_specific]}) and read with "
                     f"getattr(..., '{attr}', default); on the path [{bad[0]}] measure {bad[1]} while the node still carries "
                     f"the value of a previous layout() call: a second layout() of the same tree follows threads of the first "
                     f"call and assigns different coordinates",
                     witness={"reads": sites[:4], "path": bad[0], "example": "layout the same tree twice: coordinates differ"},
                     where=meas.where)


def run_measure_depth(chk: Check, prog: Program) -> None:
    chk.rule("C18.R2", "measure: node.y = level, children measured at level + 1; transform scales once", minimum=2)
    meas = prog.func("layout", "TreeLayout.measure")

    def body(it: Interp):
        layout = Rec(prog.cls("TreeLayout"))
        node = it.new_summary(T, "arg")
        it.arg = node
        it.calls = []
        top = [True]

        def h(it2, info, args, kwargs):
            if top[0]:
                top[0] = False
                return NotImplemented
            it2.calls.append((args[1] if len(args) > 1 else None, args[2] if len(args) > 2 else kwargs.get("level")))
            raise _Stop()
        it.hooks["TreeLayout.measure"] = h
        lvl = Num(("sym", "level"))
        try:
            it.call_function(meas, [layout, node, lvl], {})
        except _Stop:
            pass
        return None

    class _Stop(Exception):
        pass

    # only the prefix up to the first recursive call is needed: y assignment and the level argument
    import sa.absint as absint
    for p in explore(prog, body, {"tree_mode": "binary", "max_updepth": 0, "max_downdepth": 1}):
        it = p.interp
        if p.outcome != "return":
            chk.undecided("C18.R2", "C18.R2:measure", p.cond, f"{p.outcome} {p.exc or p.note}", meas.where)
            continue
        y = it.cells[it.arg.cid].cur.get("y", _MISSING)
        probs = []
        if it.calls or True:
            if not (isinstance(y, Num) and y.term == ("sym", "level")):
                if it.calls:
                    probs.append(f"node.y is {y!r} when the children are measured, expected the level")
            for ch, lv in it.calls[:1]:
                t = it.to_term(lv)
                if t is None or not A.equal_nf(t, ("add", ("sym", "level"), A.lit(1))):
                    probs.append(f"child measured at level {lv!r}, expected level + 1")
        if it.calls:
            chk.verdict(not probs, "C18.R2", "C18.R2:measure", f"measure: {p.cond}", "; ".join(probs), where=meas.where)


def run_transform(chk: Check, prog: Program) -> None:
    chk.rule("C18.R3", "transform: x scaled once, children at x -/+ offset, y scaled once, arguments forwarded", minimum=1)
    chk.rule("C18.R4", "bounds after a node == min/max of previous bounds and the node's coordinates; derived fields", minimum=4)
    tr = prog.func("layout", "TreeLayout.transform")

    def body(it: Interp):
        layout = Rec(prog.cls("TreeLayout"))
        node = it.new_summary(T, "arg")
        it.arg = node
        cell = it.cells[node.cid]
        it._set_entry(cell, "y", Num(("sym", "depth")))
        it._set_entry(cell, "offset", Num(("sym", "off")))
        it._set_entry(cell, "x", None)
        m = Rec(prog.cls("TreeMeasurement"))
        for f in ("minX", "maxX", "minY", "maxY"):
            m.fields[f] = Num(("sym", f))
        for f in ("width", "height", "centerX", "centerY"):
            m.fields[f] = Num(("sym", "old_" + f))
        it.m = m
        it.calls = []
        top = [True]

        def h(it2, info, args, kwargs):
            if top[0]:
                top[0] = False
                return NotImplemented
            it2.calls.append(list(args[1:]))
            return args[5] if len(args) > 5 else m
        it.hooks["TreeLayout.transform"] = h
        return it.call_function(tr, [layout, node, Num(("sym", "x")), Num(("sym", "ux")), Num(("sym", "uy")), m], {})

    rnd = random.Random(5)
    for p in explore(prog, body, {"tree_mode": "binary", "max_updepth": 0, "max_downdepth": 1}):
        it = p.interp
        label = f"transform: {p.cond}"
        if p.outcome != "return":
            chk.fail("C18.R3", "C18.R3:transform:raise", label, f"{p.outcome} {p.exc or p.note}", where=tr.where)
            continue
        cell = it.cells[it.arg.cid]
        probs = []
        nx, ny = it.to_term(cell.cur.get("x")), it.to_term(cell.cur.get("y"))
        if nx is None or not A.equal_nf(nx, ("mul", ("sym", "x"), ("sym", "ux"))):
            probs.append(f"node.x = {cell.cur.get('x')!r}, expected x * unit_x")
        if ny is None or not A.equal_nf(ny, ("mul", ("sym", "depth"), ("sym", "uy"))):
            probs.append(f"node.y = {cell.cur.get('y')!r}, expected depth * unit_y")
        kids = [cell.cur.get("left", cell.entry.get("left")), cell.cur.get("right", cell.entry.get("right"))]
        want = []
        for ch, sign in zip(kids, ("sub", "add")):
            want.append((ch, (sign, ("sym", "x"), ("sym", "off"))))
        if len(it.calls) != 2:
            probs.append(f"{len(it.calls)} recursive calls, expected one per child slot")
        else:
            for (ch, wx), call in zip(want, it.calls):
                got_node = call[0]
                ok_node = (got_node is None and ch is None) or (isinstance(got_node, Node) and isinstance(ch, Node) and got_node.cid == ch.cid)
                gx = it.to_term(call[1]) if len(call) > 1 else None
                if not ok_node:
                    probs.append("children visited in the wrong slots")
                elif gx is None or not A.equal_nf(gx, wx):
                    probs.append(f"child placed at {A.term_str(gx) if gx else call[1]!r}, expected {A.term_str(wx)}")
                if len(call) < 5 or it.to_term(call[2]) != ("sym", "ux") or it.to_term(call[3]) != ("sym", "uy") or call[4] is not it.m:
                    probs.append("unit multipliers / measurement not forwarded unchanged")
        chk.verdict(not probs, "C18.R3", "C18.R3:transform", label, "; ".join(probs), witness={"problems": probs}, where=tr.where)
        # ---- bounds: compare final fields with min/max semantics on samples that satisfy the path facts
        from sa.rulecases import _fact_env
        subst, ok, cons = _fact_env(it)
        fields = {f: it.to_term(it.m.fields.get(f)) for f in ("minX", "maxX", "minY", "maxY", "width", "height", "centerX", "centerY")}
        bad = None
        n_ok = 0
        syms = [("sym", s) for s in ("x", "ux", "uy", "depth", "off", "minX", "maxX", "minY", "maxY")]
        for i in range(4000):
            env = {s: float(rnd.choice([-3, -1, 0, 1, 2, 5, 7, 10000, 0.5])) for s in syms}
            env[("sym", "old_width")] = env[("sym", "old_height")] = env[("sym", "old_centerX")] = env[("sym", "old_centerY")] = 0.0
            if not ok(env):
                continue
            n_ok += 1
            px = env[("sym", "x")] * env[("sym", "ux")]
            py = env[("sym", "depth")] * env[("sym", "uy")]
            exp = {"minX": min(env[("sym", "minX")], px), "maxX": max(env[("sym", "maxX")], px),
                   "minY": min(env[("sym", "minY")], py), "maxY": max(env[("sym", "maxY")], py)}
            exp["width"] = abs(exp["minX"] - exp["maxX"])
            exp["height"] = abs(exp["minY"] - exp["maxY"])
            exp["centerX"] = exp["minX"] + exp["width"] / 2
            exp["centerY"] = exp["minY"] + exp["height"] / 2
            for f, t in fields.items():
                if t is None:
                    bad = (f, "not a number", env)
                    break
                try:
                    v = A.evaluate(A.apply_subst(t, subst), env)
                except A.Undefined:
                    continue
                if not math.isclose(v, exp[f], rel_tol=1e-9, abs_tol=1e-9):
                    bad = (f, f"{f} = {v}, expected {exp[f]}", env)
                    break
            if bad or n_ok >= 60:
                break
        if bad:
            f, why, env = bad
            chk.fail("C18.R4", f"C18.R4:transform:{f}", label,
                     f"after visiting a node the measurement's {why} (true bounding value) on this path",
                     witness={"before": {k[1]: v for k, v in env.items() if k[1] in ("minX", "maxX", "minY", "maxY")},
                              "node": {"x*ux": env[('sym', 'x')] * env[('sym', 'ux')], "depth*uy": env[('sym', 'depth')] * env[('sym', 'uy')]},
                              "path": p.cond}, where=tr.where)
        elif n_ok >= 5:
            chk.ok("C18.R4", "C18.R4:transform", label, f"{n_ok} admissible prior states agree", tr.where)
        else:
            chk.undecided("C18.R4", "C18.R4:transform", label, "too few admissible samples for this path", tr.where)


def run(chk: Check) -> None:
    prog = program(chk)
    chk.technique = "AST/dataflow rule for per-call scratch state; symbolic interpretation of measure/transform for one node " \
                    "with recursive calls summarised"
    chk.explanation = (
        "Decides only what is visible in the shape of the code: (R1) every scratch attribute that the layout reads 'if "
        "present' and stores with a call-specific value is cleared on each node at the start of its visit (so a second "
        "layout() of the same nodes cannot follow the first call's threads); (R2) measure assigns y = level and measures "
        "children at level + 1; (R3) transform scales x and y once, places the left child at x - offset and the right child "
        "at x + offset with the same offset and forwards units and measurement; (R4) for every prior state of the "
        "measurement (including the inverted initial one) and every path, min/max X/Y become the min/max of the previous "
        "value and the node's coordinate, and width/height/centre derive from them; (R5) the geometry itself, up to a size "
        "bound: layout() is interpreted from source on every binary tree shape with up to 6 (thorough 8) nodes and two "
        "unit settings, twice per tree, and the assigned coordinates are checked for y = depth x unit, left child "
        "strictly left / right child strictly right, parent centred over two children, neighbours of a level at least "
        "one unit apart, bounds equal to the true bounding box, identical coordinates on the second call, and mirrored "
        "coordinates for the mirrored shape. NOT decided: shapes beyond the size bound (the contour walk is a loop over "
        "data; no induction over tree size is attempted).")
    chk.not_decided = ["tree shapes with more nodes than the bound"]
    chk.assumptions = ["recursive calls on children behave like the call analysed (induction)"]
    run_scratch(chk, prog)
    run_measure_depth(chk, prog)
    run_transform(chk, prog)
    run_geometry(chk, prog)
    chk.max_undecided = 0


# --------------------------------------------------------------------------- geometry on all shapes up to a size bound
def shapes(n: int):
    """All binary tree shapes with exactly n nodes as nested tuples (left, right) / None."""
    if n == 0:
        return [None]
    out = []
    for k in range(n):
        for l in shapes(k):
            for r in shapes(n - 1 - k):
                out.append((l, r))
    return out


def mirror(s):
    if s is None:
        return None
    return (mirror(s[1]), mirror(s[0]))


def shape_str(s) -> str:
    if s is None:
        return "."
    if s == (None, None):
        return "N"
    return f"({shape_str(s[0])} N {shape_str(s[1])})"


def _layout_worker(task):
    repo, shape_list, units = task
    from sa.model import Program
    prog = Program(repo)
    out = []
    node_cls = prog.cls("BinaryTreeNode")
    lay_cls = prog.cls("TreeLayout")
    m_layout = prog.func("layout", "TreeLayout.layout")
    for s in shape_list:
        def body(it: Interp, s=s):
            def build(sh):
                if sh is None:
                    return None
                l, r = build(sh[0]), build(sh[1])
                return it.instantiate(node_cls, [l, r], {})
            root = build(s)
            lay = it.instantiate(lay_cls, [], {})
            runs = []
            for rep in range(2):
                meas = it.call_function(m_layout, [lay, root] + list(units), {})
                coords = []

                def walk(n, depth, pos):
                    c = it.cells[n.cid]
                    coords.append((pos, depth, c.cur.get("x"), c.cur.get("y")))
                    l, r = c.cur.get("left"), c.cur.get("right")
                    if isinstance(l, Node):
                        walk(l, depth + 1, pos + "L")
                    if isinstance(r, Node):
                        walk(r, depth + 1, pos + "R")
                walk(root, 0, "")
                runs.append((coords, {k: meas.fields.get(k) for k in ("minX", "maxX", "minY", "maxY", "width", "height")}
                             if isinstance(meas, Rec) else None))
            return runs
        res = explore(prog, body, {"max_updepth": 0, "max_steps": 400000, "max_inline": 200, "model_zero_division": False},
                      max_paths=4)
        if len(res) == 1 and res[0].outcome == "raise":
            # layout() is total on trees: an exception on a concrete shape is a violation, not an analysis problem
            out.append({"shape": shape_str(s), "problems": [f"layout() raises {res[0].exc}"], "raises": True})
            continue
        if len(res) != 1 or res[0].outcome != "return":
            out.append({"shape": shape_str(s), "error": f"{len(res)} paths / {res[0].outcome if res else '-'} "
                        f"{(res[0].exc or res[0].note) if res else ''}"})
            continue
        runs = res[0].value
        rec = {"shape": shape_str(s), "problems": []}
        ux, uy = units
        coords, meas = runs[0]
        num = lambda v: isinstance(v, (int, float)) and not isinstance(v, bool)
        if not all(num(c[2]) and num(c[3]) for c in coords):
            rec["problems"].append("non-numeric coordinates")
            out.append(rec)
            continue
        byp = {c[0]: c for c in coords}
        for pos, depth, x, y in coords:
            if abs(y - depth * uy) > 1e-9:
                rec["problems"].append(f"y of node {pos or 'root'} is {y}, depth {depth} x unit {uy}")
            l, r = byp.get(pos + "L"), byp.get(pos + "R")
            if l and not l[2] < x - 1e-12:
                rec["problems"].append(f"left child of {pos or 'root'} is not strictly left of it ({l[2]} vs {x})")
            if r and not r[2] > x + 1e-12:
                rec["problems"].append(f"right child of {pos or 'root'} is not strictly right of it ({r[2]} vs {x})")
            if l and r and abs((l[2] + r[2]) / 2 - x) > 1e-9:
                rec["problems"].append(f"{pos or 'root'} is not centred over its two children ({l[2]}, {x}, {r[2]})")
        levels: Dict[int, list] = {}

        def order_key(pos):
            # in-order position: compare paths lexicographically with L < '' < R
            return [(-1 if ch == "L" else 1) for ch in pos]
        for pos, depth, x, y in coords:
            levels.setdefault(depth, []).append((pos, x))
        for depth, items in levels.items():
            items.sort(key=lambda t: _inorder_rank(t[0]))
            for (p1, x1), (p2, x2) in zip(items, items[1:]):
                if x2 - x1 < 1 * ux - 1e-9:
                    rec["problems"].append(f"level {depth}: nodes {p1 or 'root'} and {p2 or 'root'} are {x2 - x1} apart (< 1 unit)")
        if meas:
            xs = [c[2] for c in coords]
            ys = [c[3] for c in coords]
            for k, want in (("minX", min(xs)), ("maxX", max(xs)), ("minY", min(ys)), ("maxY", max(ys))):
                if not num(meas.get(k)) or abs(meas[k] - want) > 1e-9:
                    rec["problems"].append(f"bounds.{k} = {meas.get(k)}, true value {want}")
        if runs[1][0] != runs[0][0]:
            rec["problems"].append("a second layout() of the same nodes gives different coordinates")
        rec["coords"] = {c[0] or "root": (c[2], c[3]) for c in coords}
        out.append(rec)
    return out


def _inorder_rank(pos: str):
    # rank of a node among the nodes of one level, left to right: L < R at the first difference
    return [0 if ch == "L" else 1 for ch in pos]


def full_shapes(n: int):
    """Full binary trees (every node has no or two children - the shape of an expression over binary operators) with
    exactly n nodes."""
    if n == 1:
        return [(None, None)]
    out = []
    for k in range(1, n - 1, 2):
        for l in full_shapes(k):
            for r in full_shapes(n - 1 - k):
                out.append((l, r))
    return out


def run_geometry(chk: Check, prog: Program) -> None:
    n_max = 6 if chk.tier == "quick" else 8
    chk.rule("C18.R5", f"tidy-tree invariants on every binary tree shape with up to {n_max} nodes (layout interpreted on "
             "concrete shapes)", minimum=150)
    all_shapes = [s for n in range(1, n_max + 1) for s in shapes(n)]
    _geometry(chk, prog, "C18.R5", all_shapes, 6)
    # the shapes of expressions over binary operators, further out: none of them is a known finding
    f_max = 11 if chk.tier == "quick" else 13
    chk.rule("C18.R6", f"tidy-tree invariants on every full binary tree (no node with one child) with up to {f_max} nodes",
             minimum=100)
    _geometry(chk, prog, "C18.R6", [s for n in range(1, f_max + 1, 2) for s in full_shapes(n)], 99)


def _geometry(chk: Check, prog: Program, rid: str, all_shapes, per_shape_keys_upto: int) -> None:
    import multiprocessing as mp
    import os
    tasks = []
    for units in ((1, 1), (2.0, 3.0)):
        chunk = max(10, len(all_shapes) // 32)
        for i in range(0, len(all_shapes), chunk):
            tasks.append((str(prog.repo), all_shapes[i:i + chunk], units))
    nproc = min(int(os.environ.get("VERIF_JOBS", "16")), os.cpu_count() or 1)
    with mp.get_context("fork").Pool(nproc) as pool:
        res = pool.map(_layout_worker, tasks, chunksize=1)
    where = "mathy_core/layout.py:TreeLayout.layout"
    by_shape: Dict[str, dict] = {}
    flat = [r for ch in res for r in ch]
    # mirror symmetry: coordinates of the mirrored shape are the mirrored coordinates
    coords = {}
    for r, (units_i) in zip(flat, [t[2] for t in tasks for _ in t[1]]):
        if "coords" in r:
            coords[(r["shape"], units_i)] = r["coords"]
    for r, units_i in zip(flat, [t[2] for t in tasks for _ in t[1]]):
        label = f"shape {r['shape']} units {units_i}"
        if "error" in r:
            chk.undecided(rid, f"{rid}:interp", label, r["error"], where)
            continue
        probs = list(r["problems"])
        if probs:
            kind = probs[0].split(":")[0].split(" of ")[0][:40]
            n_nodes = r["shape"].count("N")
            where_key = r["shape"] if n_nodes <= per_shape_keys_upto else "shapes-with-7-or-more-nodes"
            chk.fail(rid, f"{rid}:{_classify_geo(probs[0])}:{where_key}", label, "; ".join(probs[:3]),
                     witness={"shape": r["shape"], "units": units_i, "coords": r.get("coords")}, where=where)
        else:
            chk.ok(rid, rid, label, where=where)
    # mirror symmetry: the mirrored shape gets the mirrored coordinates (x -> -x, L <-> R)
    shape_of = {shape_str(sh): sh for sh in all_shapes}
    flip = str.maketrans("LR", "RL")
    failing = {(r["shape"], u) for r, u in zip(flat, [t[2] for t in tasks for _ in t[1]]) if r.get("problems") or "error" in r}
    for (sname, u), cs in coords.items():
        msname = shape_str(mirror(shape_of[sname]))
        if (msname, u) not in coords or sname > msname:
            continue
        if (sname, u) in failing or (msname, u) in failing:
            continue
        other = coords[(msname, u)]
        bad = None
        for pos, (x, y) in cs.items():
            mp_ = "root" if pos == "root" else pos.translate(flip)
            ox, oy = other.get(mp_, (None, None))
            if ox is None or abs(ox + x) > 1e-9 or abs(oy - y) > 1e-9:
                bad = (pos, (x, y), (ox, oy))
                break
        label = f"shape {sname} vs its mirror image, units {u}"
        if bad:
            n_nodes = sname.count("N")
            wk = sname if n_nodes <= per_shape_keys_upto else "shapes-with-7-or-more-nodes"
            chk.fail(rid, f"{rid}:mirror:{wk}", label,
                     f"node {bad[0]} is at {bad[1]} but its mirror image is at {bad[2]} in the mirrored tree",
                     witness={"shape": sname, "mirror": msname, "coords": cs, "mirror_coords": other}, where=where)
        else:
            chk.ok(rid, f"{rid}:mirror", label, where=where)
    chk.analysed["layout_shapes_" + rid] = len(all_shapes)


def _classify_geo(p: str) -> str:
    if "raises" in p:
        return "raises"
    if "apart" in p:
        return "separation"
    if "strictly" in p:
        return "child-side"
    if "centred" in p:
        return "centring"
    if "bounds" in p:
        return "bounds"
    if "second layout" in p:
        return "repeatability"
    if p.startswith("y of"):
        return "depth"
    return "other"
