"""C01 - every applicable rewrite preserves the value of the expression.

R1 schema identity: for every rule, option and shape class on which the rule reports applicable, the value
   term of the rewritten region equals the value term of the matched region (E3 cases + E4 normal form);
   a 'differ' verdict needs a numeric witness satisfying the path facts.
R2 None-vs-zero contradiction: an Optional[number] attribute that is tested against None somewhere must
   not be tested by truthiness elsewhere (0 is a number).
"""
from __future__ import annotations

import ast
from typing import Dict, List

from sa.model import Program, unparse
from sa.report import Check
from .common import case_label, opts_str, program, rule_records, where_rule

VALUE_RULES = ["AssociativeSwapRule", "CommutativeSwapRule", "ConstantsSimplifyRule", "DistributiveFactorOutRule",
               "DistributiveMultiplyRule", "MultiplicativeInverseRule", "RestateSubtractionRule",
               "VariableMultiplyRule"]


def value_key(r: dict) -> str:
    zero_exp = any("in ['zero']" in f for f in r.get("facts", []))
    return f"C01.R1:{r['rule']}:{r.get('before_shape')}" + ("+zero-fact" if zero_exp else "")


def run_r1(chk: Check, recs: List[dict], pid: str = "C01") -> None:
    chk.rule(f"{pid}.R1", "value term of the rewritten region == value term of the matched region, per "
             "(rule, option, shape class) case", minimum=400)
    for r in recs:
        if r["rule"] not in VALUE_RULES or r["outcome"] != "applied" or not r.get("result_is_node"):
            continue
        if "judge_error" in r:
            chk.undecided(f"{pid}.R1", f"{pid}.R1:{r['rule']}:judge-error", case_label(r), r["judge_error"], where_rule(r))
            continue
        v = r["value"]
        if v.get("equation"):
            continue  # equation contexts are judged by C02
        construct = f"{case_label(r)}: {r['before_term']}  ->  {r['after_term']}"
        key = value_key(r).replace("C01", pid)
        if v["verdict"] == "equal":
            chk.ok(f"{pid}.R1", key, construct, where=where_rule(r))
        elif v["verdict"] == "differ":
            chk.fail(f"{pid}.R1", key, construct,
                     f"value changes: {v.get('why')}; path: {r['cond'][:300]}",
                     witness={"assignment": v.get("witness"), "before": r["before_term"], "after": r["after_term"],
                              "facts": r.get("facts"), "shape": r.get("before_shape"), "result": r.get("after_shape")},
                     where=where_rule(r))
        else:
            chk.undecided(f"{pid}.R1", key, construct, v.get("why", ""), where_rule(r))


def optional_number_attrs(prog: Program) -> Dict[str, List[str]]:
    out: Dict[str, List[str]] = {}
    for c in prog.classes.values():
        for name, ann in c.annotations.items():
            t = unparse(ann).replace(" ", "")
            if t in ("Optional[NumberType]", "Optional[Union[int,float]]", "Optional[float]", "Optional[int]",
                     "Optional[Union[float,int]]"):
                out.setdefault(name, []).append(c.name)
    return out


def run_r2(chk: Check, prog: Program) -> None:
    chk.rule("C01.R2", "an Optional[number] attribute that is None-tested in the package is never tested by "
             "truthiness (None-vs-zero contradiction)", minimum=4)
    attrs = optional_number_attrs(prog)
    none_tested = set()
    for f in prog.all_functions():
        for n in ast.walk(f.node):
            if isinstance(n, ast.Compare) and len(n.ops) == 1 and isinstance(n.ops[0], (ast.Is, ast.IsNot)) \
                    and isinstance(n.comparators[0], ast.Constant) and n.comparators[0].value is None \
                    and isinstance(n.left, ast.Attribute) and n.left.attr in attrs:
                none_tested.add(n.left.attr)
    for f in prog.all_functions():
        if f.module.name in ("testing", "problems", "layout"):
            continue
        sites = []

        def bool_ctx(e: ast.expr, parent=None):
            # e is evaluated for truthiness
            if isinstance(e, ast.BoolOp):
                for i, v in enumerate(e.values):
                    # `x or 0` defaulting idiom: value context, same number either way
                    bool_ctx(v, e)
            elif isinstance(e, ast.UnaryOp) and isinstance(e.op, ast.Not):
                bool_ctx(e.operand, e)
            elif isinstance(e, ast.Attribute) and e.attr in attrs and e.attr in none_tested:
                sites.append(e)

        for n in ast.walk(f.node):
            if isinstance(n, (ast.If, ast.While, ast.IfExp, ast.Assert)):
                bool_ctx(n.test)
            elif isinstance(n, ast.BoolOp):
                vals = n.values
                # operands other than the last of and/or are truth-tested wherever the BoolOp occurs
                if isinstance(n.op, ast.Or) and len(vals) == 2 and isinstance(vals[1], ast.Constant) and vals[1].value == 0:
                    continue
                for v in vals[:-1]:
                    bool_ctx(v, n)
            elif isinstance(n, ast.UnaryOp) and isinstance(n.op, ast.Not):
                bool_ctx(n.operand, n)
        seen = set()
        for e in sites:
            k = (unparse(e), getattr(e, "lineno", 0), getattr(e, "col_offset", 0))
            if k in seen:
                continue
            seen.add(k)
            # a candidate, not a verdict: whether treating 0 as absent changes a value is decided by R1 (zero-valued
            # payload paths are among its cases); a truthiness test whose two branches agree at 0 is harmless
            chk.info("C01.R2", f"C01.R2:{f.qualname}:{unparse(e)}", f"truthiness test of {unparse(e)} in {f.qualname}",
                     f"{e.attr} is declared Optional[number] ({', '.join(attrs[e.attr])}) and None-tested elsewhere; "
                     f"at value 0 the truthiness test treats a present exponent/coefficient as absent (judged through R1)",
                     where=f.where)
    # positive instances: None tests that are done right
    for f in prog.all_functions():
        for n in ast.walk(f.node):
            if isinstance(n, ast.Compare) and len(n.ops) == 1 and isinstance(n.ops[0], (ast.Is, ast.IsNot)) \
                    and isinstance(n.comparators[0], ast.Constant) and n.comparators[0].value is None \
                    and isinstance(n.left, ast.Attribute) and n.left.attr in attrs:
                chk.ok("C01.R2", f"C01.R2:{f.qualname}:{unparse(n)}", f"{unparse(n)} in {f.qualname}", where=f.where)


def run(chk: Check) -> None:
    prog = program(chk)
    chk.technique = "abstract interpretation of rule classifiers/bodies over a finite kind/None/sign domain + " \
                    "algebraic normal-form comparison; AST contradiction rule"
    chk.explanation = (
        "Decides: for the eight expression-level rules (BalancedMove is judged as an equation rewrite under C02), "
        "every path of can_apply_to x apply_to over the node-kind / None / sign / identifier domain is enumerated "
        "from the source; for each applicable case the value term of the rewritten region is compared with that of "
        "the matched region by a syntactic normal form (ring/field/exponent laws); a difference is reported only "
        "with a numeric witness of my own term algebra that satisfies the path facts. The context above the region "
        "is a summary cell and its integrity is C07's clause, so congruence lifts the identity to the whole "
        "expression at every position. factor(), which the judgement summarises by its contract, is checked against "
        "that contract (C01.R3 = the clause C16.R4). Not decided: floating-point rounding of folded constants, non-finite "
        "constants, trees outside W (chained equations, child-on-left unary nodes).")
    chk.not_decided = ["floating point rounding", "non-finite constants", "BalancedMove value (see C02)"]
    chk.assumptions = ["input trees are well formed (W): consistent links, arity, Equal only at the root, "
                       "unary child on the right", "summaries of clone/evaluate/find_type/factor conform to source "
                       "(checked by C13/C05/C14/C16 clauses)", "numpy.min/max of a non-empty list returns a member"]
    chk.trusted = ["E4 normaliser laws (sound by construction)", "external contracts numpy.min/max, math.isnan"]
    recs = rule_records(chk)
    run_r1(chk, recs)
    run_r2(chk, prog)
    # the value judgement summarises factor() by its contract (every entry k -> c is a factor pair: k * c == value; for a
    # positive value all divisor pairs are present): the clause of C16 that checks the source against this contract runs
    # under this property as well
    from sa.summaries import Summaries
    from .c16 import run_factor
    run_factor(chk.renamed({"C16.R4": "C01.R3"}), prog, Summaries(prog))
    # contracts of other parts of the library this check takes for granted (summaries, token model, reference grammar):
    # the clauses that check the source against them, replayed under this property (props/contracts.py)
    from .contracts import run_contracts
    run_contracts(chk, prog, ['clone', 'evaluate', 'traversal'])
    chk.exhaustive = True
    chk.max_undecided = 0
