#!/venv/bin/python
"""Regenerates /verif/MANIFEST.json from the table below (kept in one place so that it stays valid)."""
import json
import os

BASE = "cd /repo && /venv/bin/python -m pytest -ra -q -p no:cacheprovider --timeout=900 --continue-on-collection-errors"

CLAIMED = {
    "C01": dict(
        technique="abstract interpretation over a finite kind/None/sign/identifier domain + algebraic normal form; AST contradiction rule",
        text="Every path of can_apply_to x apply_to of the eight expression-level rules (all options) is enumerated from source "
             "over node-kind / None / sign / identifier-equality classes; for each applicable case the value term of the "
             "rewritten region is proven equal to that of the matched region by a syntactic normal form, or reported with a "
             "numeric witness of the term algebra. Exhaustive over shape classes, at any position of any well-formed tree. "
             "factor(), which the judgement summarises, is checked against its contract (every entry a factor pair, also for negative values); the clone / evaluate / traversal contracts are replayed under this property.",
        note="Assumes well-formed input trees (W), the summaries of clone/evaluate/find_type/factor (each checked by a clause of "
             "C13/C05/C14/C16) and numpy.min/max returning a member. Does not decide rounding of folded constants, non-finite "
             "constants, or BalancedMove (judged as an equation rewrite under C02).",
        design="4 C01"),
    "C02": dict(
        technique="abstract interpretation with materialised ancestor chains + normal-form comparison of L-R up to a non-zero unit",
        text="All applicable cases of BalancedMove (chains of up to 4/6 ancestors between the moved node and '=', every kind and "
             "side), the equation flip, and every other rule on an '=' node: L-R equals a proven non-zero multiple of L'-R'. "
             "An equation 'holds' exactly when EqualExpression.operate accepts its sides (shared clause of C05).",
        note="W: '=' only at the root; chain length bound (quick 4, thorough 6 levels above the node). Numeric truth of an "
             "equation and chained equations are not decided.",
        design="4 C02"),
    "C06": dict(
        technique="abstract interpretation: effect log per classifier path, raise outcomes per case; abstract visit sequence for the search",
        text="No path of any rule's can_apply_to stores to a pre-existing node; no path raises in the check or in apply_to after "
             "a positive answer (asserts, None dereferences, evaluate() using the operator table's may-raise facts); find_nodes/"
             "find_node are exact over an abstract in-order sequence. "
             "clone() / clone_from_root() conform to the summary used (shared clauses C13.R2-R4); evaluate / traversal contracts replayed.",
        note="W; in-order traversal semantics from C14; may-raise facts from the C05 operator table and the external table "
             "(np.power, math.factorial).",
        design="4 C06"),
    "C07": dict(
        technique="abstract interpretation with a materialising heap: audit of the final points-to graph; who-may-write rule",
        text="For every applicable case: child.parent consistency, arity, no node twice (including nodes that outlive the call), "
             "re-attachment on the saved slot, context untouched, nothing dropped or invented, BalancedMove's source tree "
             "untouched; link fields of nodes are written only in the link primitives (type-resolved). "
             "clone and traversal contracts are replayed under this property.",
        note="W; clone summary (C13). Bookkeeping fields (classes, _changed, ids) are outside the statement.",
        design="4 C07"),
    "C13": dict(
        technique="attribute-completeness table over clone() MRO chains; abstract interpretation of clone()/clone_from_root()",
        text="clone() of each of the 12 classes builds a fresh same-class node whose children are the clones of the children on "
             "the same sides with id/payload/operand side copied; clone_from_root() returns the copy of the receiver at the "
             "same position of a complete copy (ancestor chains <= 2, every kind and side; and, with the real clone() on every "
             "node, for every node of every tree of depth <= 2 over five node kinds - also as a second request on the same tree object). "
             "Every tree a rewrite produces has consistent links (shared clause C07.R1).",
        note="Induction hypothesis for recursive clone() of proper subtrees; clone_from_root(other_node) not decided.",
        design="4 C13"),
    "C14": dict(
        technique="abstract interpretation with inductive summaries; event-trace refinement against the specification trace",
        text="Each visit_* over all child-presence shapes and stop positions emits exactly the defining order with true depth and "
             "immediate STOP; look-ups (to_list, find_id, find_type, get_side, get_sibling, get_children, get_root, "
             "get_root_side, is_leaf) agree with traversals and links in every local configuration. "
             "The link queries are also analysed with node classes that compare by value (when the package defines any) among the operands. "
             "find_id is judged on receivers inside a larger tree; a full traversal after a stopped one makes the callbacks of a fresh tree "
             "(every shape with up to 4 nodes, every stop position and pair of orders).",
        note="Induction hypothesis for recursive visits of proper subtrees; descent of loop-based code bounded to 3 levels.",
        design="4 C14"),
    "C15": dict(
        technique="points-to analysis with strong updates over all neighbourhood configurations of rotate",
        text="rotate interpreted over 25 configurations (root / left / right child x grandparent cases x inner subtree presence): "
             "links consistent, node above former parent, grandparent slot updated, in-order sequence unchanged, root no-op; "
             "AssociativeSwap applies exactly this rotation. "
             "Also with every node ranging independently over two node classes, and over classes that compare by value when the package defines any.",
        note="Input links consistent; node identity comparison (language guard).",
        design="4 C15"),
}

NOT_YET = {}


def main():
    here = os.path.dirname(os.path.dirname(os.path.abspath(__file__)))
    props = [json.loads(l) for l in open(os.path.join(here, "properties.jsonl"))]
    extra_path = os.path.join(here, "tools", "manifest_extra.json")
    extra = json.load(open(extra_path)) if os.path.exists(extra_path) else {}
    claimed = dict(CLAIMED)
    claimed.update(extra.get("claimed", {}))
    na_reasons = dict(NOT_YET)
    na_reasons.update(extra.get("not_applicable", {}))
    checks = []
    na = []
    for p in props:
        pid = p["id"]
        if pid in claimed:
            c = claimed[pid]
            checks.append({
                "property_id": pid,
                "quick_cmd": f"cd /verif && ./check {pid} --tier quick",
                "thorough_cmd": f"cd /verif && ./check {pid} --tier thorough",
                "evidence_file": f"/verif/evidence/{pid}.json",
                "replay_cmd_template": "cd /verif && ./check " + pid + " --replay {path}",
                "engine": "sa",
                "level_claimed": {"category": "other", "text": c["text"], "design_ref": "DESIGN.md section " + c["design"]},
                "level_note": c["note"],
                "technique": c["technique"],
            })
        else:
            na.append({"property_id": pid, "reason": na_reasons.get(
                pid, "check not finished in this session: the static clauses planned in DESIGN.md section 4 are not yet "
                     "implemented, so the property is not claimed")})
    m = {
        "version": 1,
        "setup_cmd": "cd /verif && /venv/bin/python -B -c \"import sa.main, sa.absint, sa.rulecases\"",
        "hooks": {"guard": "MATHY_CORE_VERIF",
                  "enable": "none needed: the checks read /repo as source text (ast) and never import or run it",
                  "baseline_off_cmd": BASE, "source_commits": [], "add_only": True},
        "engines": [
            {"name": "sa", "path": "/verif/sa", "serves_properties": sorted(claimed),
             "kind_free_text": "custom static analysers over Python ast: program model, path-sensitive abstract interpreter "
                               "with a materialising heap, algebraic normal form, table extractors, type-lite resolver"}],
        "checks": checks,
        "not_applicable": na,
        "notes": "Static analysis only. Exit codes: 0 pass (KNOWN-FINDING lines allowed), 1 VIOLATION, 2 ANALYSIS-ERROR. "
                 "Fix commits in /repo: see known_findings.json (status fixed).",
    }
    json.dump(m, open(os.path.join(here, "MANIFEST.json"), "w"), indent=1)
    print(f"claimed {len(checks)}, not_applicable {len(na)}")


if __name__ == "__main__":
    main()
