"""Systematic mutation campaign (catalogue maintenance, not a check).

1. generate single-edit AST mutants of the library sources;
2. keep the ones the repository's own 110 tests do NOT kill (a mutant the suite kills is not a 'realistic change that
   passes the existing tests');
3. run the property checks that cover the mutated file on each survivor;
4. write selftest/mutation_report.json: per survivor the exit codes, and the list of survivors no check reports
   (to be triaged by hand: equivalent mutant, outside the decided clauses, or a gap of the machinery).

Usage: /venv/bin/python -m selftest.mutate [--files a.py,b.py] [--jobs N] [--limit N]
Scratch copies live under a fresh mkdtemp and are removed.
"""
from __future__ import annotations

import ast
import copy
import json
import os
import shutil
import subprocess
import sys
import tempfile
import time
from concurrent.futures import ThreadPoolExecutor
from pathlib import Path
from typing import Dict, List, Optional, Tuple

VERIF = Path(__file__).resolve().parent.parent
REPO = Path(os.environ.get("VERIF_REPO", "/repo"))

FILE_CHECKS = {
    "mathy_core/tree.py": ["C14", "C15", "C13", "C07", "C18"],
    "mathy_core/expressions.py": ["C04", "C05", "C13", "C14", "C01", "C06"],
    "mathy_core/tokenizer.py": ["C11", "C12", "C10", "C03"],
    "mathy_core/parser.py": ["C03", "C10", "C12", "C04"],
    "mathy_core/rule.py": ["C06", "C07", "C01", "C09"],
    "mathy_core/util.py": ["C16", "C01", "C02", "C06", "C07", "C08"],
    "mathy_core/layout.py": ["C18"],
    "mathy_core/problems.py": ["C17"],
}
for r in ("associative_swap", "balanced_move", "commutative_swap", "constants_simplify", "distributive_factor_out",
          "distributive_multiply_across", "multiplicative_inverse", "restate_subtraction", "variable_multiply"):
    FILE_CHECKS[f"mathy_core/rules/{r}.py"] = ["C01", "C02", "C06", "C07", "C08", "C09"]

SKIP_FUNCS = {"to_math_ml", "to_math_ml_fragment", "make_ml_tag", "get_ml_name", "terminal_text", "with_color", "color",
              "print_error", "raise_with_history", "compare_expression_values", "compare_expression_string_values",
              "compare_equation_values", "pad_array", "add_class", "clear_classes", "path_to_root", "name", "code",
              "is_debug_mode", "__str__no"}

CMP_SWAP = {ast.Eq: ast.NotEq, ast.NotEq: ast.Eq, ast.Lt: ast.LtE, ast.LtE: ast.Lt, ast.Gt: ast.GtE, ast.GtE: ast.Gt,
            ast.Is: ast.IsNot, ast.IsNot: ast.Is, ast.In: ast.NotIn, ast.NotIn: ast.In}
BIN_SWAP = {ast.Add: ast.Sub, ast.Sub: ast.Add, ast.Mult: ast.Div, ast.Div: ast.Mult}


class Mutant:
    def __init__(self, rel: str, func: str, lineno: int, op: str, desc: str, source: str, context: str = ""):
        self.rel, self.func, self.lineno, self.op, self.desc, self.source = rel, func, lineno, op, desc, source
        self.context = context

    def presumed_equivalent(self) -> Optional[str]:
        """Classes of mutants that cannot change any of the 18 stated behaviours (reason), else None."""
        if self.op == "drop-stmt" and any(k in self.desc for k in (".set_changed()", ".all_changed()", ".clear_classes()",
                                                                   ".add_class(")):
            return "bookkeeping for visualisation (changed marks / css classes): outside the 18 statements"
        if self.context == "assert":
            return "inside an assert statement: only the internal sanity check changes"
        if self.context == "raise":
            return "inside a raise statement: only the error message / exception arguments change"
        if self.op == "swap-args" and any(self.desc.startswith(f"`{c}(") for c in ("AddExpression", "MultiplyExpression")):
            return "operand order of a commutative operator in a freshly built node (the statements allow any order of + and *)"
        return None

    @property
    def mid(self) -> str:
        return f"{self.rel.split('/')[-1]}:{self.func}:L{self.lineno}:{self.op}"


def _functions(tree: ast.Module):
    for n in ast.walk(tree):
        if isinstance(n, ast.ClassDef):
            for m in n.body:
                if isinstance(m, ast.FunctionDef):
                    yield f"{n.name}.{m.name}", m
        elif isinstance(n, ast.FunctionDef) and n.col_offset == 0:
            yield n.name, n


def generate(rel: str) -> List[Mutant]:
    src = (REPO / rel).read_text()
    tree = ast.parse(src)
    out: List[Mutant] = []
    # index nodes of each function by walk order so that a deep copy can be edited at the same position
    for qual, fn in _functions(tree):
        if fn.name in SKIP_FUNCS or fn.name.startswith("to_math"):
            continue
        nodes = list(ast.walk(fn))
        ctx_of: Dict[int, str] = {}
        for a in ast.walk(fn):
            if isinstance(a, (ast.Assert, ast.Raise)):
                for x in ast.walk(a):
                    ctx_of[id(x)] = "assert" if isinstance(a, ast.Assert) else "raise"
        annotations = set()
        for a in ast.walk(fn):
            for field in ("annotation", "returns"):
                sub = getattr(a, field, None)
                if isinstance(sub, ast.AST):
                    for x in ast.walk(sub):
                        annotations.add(id(x))
        for idx, n in enumerate(nodes):
            if id(n) in annotations:
                continue
            edits = []
            if isinstance(n, (ast.If, ast.While)) and not (isinstance(n.test, ast.Constant)):
                edits.append(("negate-cond", f"negate `{ast.unparse(n.test)[:50]}`",
                              lambda m: setattr(m, "test", ast.UnaryOp(op=ast.Not(), operand=m.test))))
            if isinstance(n, ast.Compare) and len(n.ops) == 1 and type(n.ops[0]) in CMP_SWAP:
                new = CMP_SWAP[type(n.ops[0])]
                edits.append(("cmp-swap", f"`{ast.unparse(n)[:50]}` -> {new.__name__}",
                              lambda m, new=new: setattr(m, "ops", [new()])))
            if isinstance(n, ast.BoolOp) and len(n.values) == 2:
                new = ast.Or if isinstance(n.op, ast.And) else ast.And
                edits.append(("bool-swap", f"`{ast.unparse(n)[:50]}` and<->or", lambda m, new=new: setattr(m, "op", new())))
            if isinstance(n, ast.BinOp) and type(n.op) in BIN_SWAP and not isinstance(n.left, ast.Constant):
                new = BIN_SWAP[type(n.op)]
                edits.append(("binop-swap", f"`{ast.unparse(n)[:50]}` -> {new.__name__}", lambda m, new=new: setattr(m, "op", new())))
            if isinstance(n, ast.Constant) and isinstance(n.value, bool):
                edits.append(("bool-const", f"{n.value} -> {not n.value}", lambda m: setattr(m, "value", not m.value)))
            elif isinstance(n, ast.Constant) and isinstance(n.value, int) and not isinstance(n.value, bool) and abs(n.value) <= 4:
                edits.append(("int-const", f"{n.value} -> {n.value + 1}", lambda m: setattr(m, "value", m.value + 1)))
            elif isinstance(n, ast.Constant) and n.value in ("left", "right"):
                edits.append(("side-const", f"'{n.value}' flipped",
                              lambda m: setattr(m, "value", "right" if m.value == "left" else "left")))
            if isinstance(n, ast.Attribute) and n.attr in ("left", "right") and isinstance(n.ctx, ast.Load):
                edits.append(("side-attr", f"`{ast.unparse(n)[:40]}` left<->right",
                              lambda m: setattr(m, "attr", "right" if m.attr == "left" else "left")))
            if isinstance(n, ast.Call) and len(n.args) >= 2 and not any(isinstance(a, ast.Starred) for a in n.args) \
                    and ast.unparse(n.args[0]) != ast.unparse(n.args[1]):
                edits.append(("swap-args", f"`{ast.unparse(n)[:60]}` first two args swapped",
                              lambda m: setattr(m, "args", [m.args[1], m.args[0]] + m.args[2:])))
            if isinstance(n, ast.Call) and isinstance(n.func, ast.Attribute) and n.func.attr == "clone" and not n.args:
                edits.append(("drop-clone", f"`{ast.unparse(n)[:50]}` without clone", None))
            if isinstance(n, ast.Expr) and isinstance(n.value, ast.Call) and not isinstance(getattr(n.value, "func", None), ast.Name):
                edits.append(("drop-stmt", f"delete `{ast.unparse(n)[:60]}`", None))
            if isinstance(n, ast.Return) and isinstance(n.value, ast.Constant) and isinstance(n.value.value, bool):
                pass  # covered by bool-const
            for op, desc, fnedit in edits:
                t2 = copy.deepcopy(tree)
                target_fn = None
                for q2, f2 in _functions(t2):
                    if q2 == qual and f2.lineno == fn.lineno:
                        target_fn = f2
                if target_fn is None:
                    continue
                n2 = list(ast.walk(target_fn))[idx]
                try:
                    if op == "drop-clone":
                        _replace_node(target_fn, n2, n2.func.value)
                    elif op == "drop-stmt":
                        _replace_stmt(target_fn, n2, ast.Pass())
                    else:
                        fnedit(n2)
                    ast.fix_missing_locations(t2)
                    new_src = ast.unparse(t2) + "\n"
                    compile(new_src, rel, "exec")
                except Exception:
                    continue
                out.append(Mutant(rel, qual, getattr(n, "lineno", fn.lineno), op, desc, new_src, ctx_of.get(id(n), "")))
    # de-duplicate identical sources
    seen = set()
    uniq = []
    for m in out:
        if m.source in seen:
            continue
        seen.add(m.source)
        uniq.append(m)
    return uniq


def _replace_node(root: ast.AST, old: ast.AST, new: ast.AST) -> None:
    for parent in ast.walk(root):
        for field, value in ast.iter_fields(parent):
            if value is old:
                setattr(parent, field, new)
                return
            if isinstance(value, list):
                for i, v in enumerate(value):
                    if v is old:
                        value[i] = new
                        return


def _replace_stmt(root: ast.AST, old: ast.stmt, new: ast.stmt) -> None:
    _replace_node(root, old, new)


def scratch() -> Path:
    d = Path(tempfile.mkdtemp(prefix="mathy-mut-"))
    for item in ("mathy_core", "tests", "website", "setup.cfg", "mypy.ini"):
        src = REPO / item
        if src.is_dir():
            shutil.copytree(src, d / item, ignore=shutil.ignore_patterns("__pycache__", "node_modules"))
        elif src.exists():
            shutil.copy(src, d / item)
    return d


def survives_tests(m: Mutant) -> Optional[bool]:
    d = scratch()
    try:
        (d / m.rel).write_text(m.source)
        r = subprocess.run(["/venv/bin/python", "-m", "pytest", "-q", "-x", "-p", "no:cacheprovider", "--timeout=120",
                            "tests", "website/tests"], cwd=d, capture_output=True, text=True, timeout=600)
        return r.returncode == 0
    except subprocess.TimeoutExpired:
        return False
    finally:
        shutil.rmtree(d, ignore_errors=True)


def run_checks(m: Mutant, jobs: int) -> Dict[str, int]:
    d = Path(tempfile.mkdtemp(prefix="mathy-mutc-"))
    try:
        shutil.copytree(REPO / "mathy_core", d / "mathy_core", ignore=shutil.ignore_patterns("__pycache__"))
        (d / m.rel).write_text(m.source)
        env = dict(os.environ, VERIF_REPO=str(d), VERIF_OUT=str(d / "_out"), VERIF_JOBS=str(jobs))
        res = {}
        for c in FILE_CHECKS[m.rel]:
            try:
                r = subprocess.run([str(VERIF / "check"), c], env=env, capture_output=True, text=True, timeout=900)
                res[c] = r.returncode
            except subprocess.TimeoutExpired:
                res[c] = 124
            if res[c] == 1:
                break  # detected: no need to run the rest
        return res
    finally:
        shutil.rmtree(d, ignore_errors=True)


def main(argv: List[str]) -> int:
    files = list(FILE_CHECKS)
    jobs = 8
    limit = None
    reuse = False
    i = 0
    while i < len(argv):
        if argv[i] == "--files":
            files = [f if f.startswith("mathy_core") else f"mathy_core/{f}" for f in argv[i + 1].split(",")]
            i += 2
        elif argv[i] == "--jobs":
            jobs = int(argv[i + 1])
            i += 2
        elif argv[i] == "--limit":
            limit = int(argv[i + 1])
            i += 2
        elif argv[i] == "--reuse":
            reuse = True
            i += 1
        else:
            i += 1
    t0 = time.time()
    mutants: List[Mutant] = []
    for f in files:
        ms = generate(f)
        if limit:
            ms = ms[::max(1, len(ms) // limit)][:limit]
        mutants += ms
    print(f"{len(mutants)} mutants generated in {time.time() - t0:.0f}s", flush=True)
    prev_path = VERIF / "selftest" / "mutation_report.json"
    if reuse and prev_path.exists():
        # the mutants are generated deterministically: take the survivor set of the previous campaign (the repository's test
        # suite and sources are unchanged) and only re-run the checks
        prev = json.loads(prev_path.read_text())
        keep = {(it["id"], it["edit"]) for it in prev["items"]}
        survivors = [m for m in mutants if (m.mid, m.desc) in keep]
        n_generated_prev = prev["generated"]
        if n_generated_prev != len(mutants):
            print(f"warning: {len(mutants)} mutants now, {n_generated_prev} in the previous campaign", flush=True)
    else:
        with ThreadPoolExecutor(max_workers=16) as ex:
            alive = list(ex.map(survives_tests, mutants))
        survivors = [m for m, a in zip(mutants, alive) if a]
    print(f"{len(survivors)} survive the repository's test suite ({time.time() - t0:.0f}s)", flush=True)
    inner = max(1, 16 // jobs)
    with ThreadPoolExecutor(max_workers=jobs) as ex:
        results = list(ex.map(lambda m: run_checks(m, inner), survivors))
    report = []
    n_det = n_err = n_miss = n_eq = 0
    for m, r in zip(survivors, results):
        status = "detected" if any(v == 1 for v in r.values()) else ("analysis-error" if any(v not in (0, 1) for v in r.values()) else "undetected")
        why_eq = m.presumed_equivalent()
        if status == "undetected" and why_eq:
            status = "presumed-equivalent"
            n_eq += 1
        n_det += status == "detected"
        n_err += status == "analysis-error"
        n_miss += status == "undetected"
        report.append({"id": m.mid, "file": m.rel, "function": m.func, "line": m.lineno, "operator": m.op, "edit": m.desc,
                       "checks": r, "status": status, **({"reason": why_eq} if status == "presumed-equivalent" else {})})
    out = {"generated": len(mutants), "killed_by_tests": len(mutants) - len(survivors), "survivors": len(survivors),
           "detected": n_det, "analysis_error": n_err, "undetected": n_miss, "presumed_equivalent": n_eq, "files": files,
           "wall_s": round(time.time() - t0), "items": report}
    name = "mutation_report.json" if len(files) == len(FILE_CHECKS) else "mutation_report_partial.json"
    (VERIF / "selftest" / name).write_text(json.dumps(out, indent=1))
    print(f"survivors {len(survivors)}: detected {n_det}, analysis-error {n_err}, presumed-equivalent {n_eq}, undetected {n_miss} ({time.time() - t0:.0f}s)")
    for it in report:
        if it["status"] not in ("detected", "presumed-equivalent"):
            print(f"  {it['status']:14s} {it['id']:60s} {it['edit'][:70]}  {it['checks']}")
    return 0


if __name__ == "__main__":
    sys.exit(main(sys.argv[1:]))
