"""Self-test of the checkers, both ways (DESIGN 7):

* seeded changes (/verif/seeded/*/patch.diff with meta.json "expect") must be reported as VIOLATION by the listed checks;
* benign variants (behaviour-preserving edits computed here on a scratch copy) must leave every listed check at exit 0.

Usage: ./check selftest [--only ID[,ID..]] [--jobs N] [--benign|--seeds]
Scratch copies live under a fresh mkdtemp outside /repo and /verif and are removed after each variant.
"""
from __future__ import annotations

import ast
import json
import os
import shutil
import subprocess
import sys
import tempfile
import time
from concurrent.futures import ThreadPoolExecutor
from pathlib import Path
from typing import Callable, Dict, List, Optional, Tuple

VERIF = Path(__file__).resolve().parent.parent
REPO = Path(os.environ.get("VERIF_REPO", "/repo"))
ALL = [f"C{i:02d}" for i in range(1, 19)]


# --------------------------------------------------------------------------- benign transforms
def _rewrite(path: Path, fn: Callable[[ast.Module], ast.Module]) -> None:
    tree = ast.parse(path.read_text())
    tree = fn(tree)
    ast.fix_missing_locations(tree)
    path.write_text(ast.unparse(tree) + "\n")


def b_unparse_all(root: Path) -> None:
    """Normalise every module through ast.unparse: comments and docstring layout go, every line number moves."""
    for p in (root / "mathy_core").rglob("*.py"):
        _rewrite(p, lambda t: t)


class _Rename(ast.NodeTransformer):
    def __init__(self, mapping: Dict[str, str]):
        self.m = mapping

    def visit_Name(self, n):
        if n.id in self.m:
            n.id = self.m[n.id]
        return n

    def visit_arg(self, n):
        if n.arg in self.m and n.arg != "self":
            n.arg = self.m[n.arg]
        return n


def _in_function(tree: ast.Module, qual: str, fn: Callable[[ast.FunctionDef], None]) -> None:
    parts = qual.split(".")
    for n in ast.walk(tree):
        if isinstance(n, ast.ClassDef) and len(parts) == 2 and n.name == parts[0]:
            for m in n.body:
                if isinstance(m, ast.FunctionDef) and m.name == parts[1]:
                    fn(m)
        if isinstance(n, ast.FunctionDef) and len(parts) == 1 and n.name == parts[0]:
            fn(n)


def b_rename_locals(root: Path) -> None:
    def f1(t):
        _in_function(t, "BinaryTreeNode.rotate", lambda m: _Rename({"grand_parent": "gp", "parent": "par", "node": "me"}).visit(m))
        return t
    _rewrite(root / "mathy_core/tree.py", f1)

    def f2(t):
        _in_function(t, "RestateSubtractionRule.get_type",
                     lambda m: _Rename({"is_sub": "subtraction", "is_parent_add": "under_add", "is_parent_equal": "under_eq",
                                        "is_add": "addition"}).visit(m))
        return t
    _rewrite(root / "mathy_core/rules/restate_subtraction.py", f2)

    def f3(t):
        _in_function(t, "make_term", lambda m: _Rename({"constExp": "c_node", "varExp": "v_node", "powExp": "p_node"}).visit(m))
        _in_function(t, "factor", lambda m: _Rename({"one": "small", "two": "large"}).visit(m))
        return t
    _rewrite(root / "mathy_core/util.py", f3)


class _NestIfs(ast.NodeTransformer):
    """if A and B: body   ->   if A:\n    if B: body      (only when there is no else branch)"""

    def visit_If(self, n: ast.If):
        self.generic_visit(n)
        if isinstance(n.test, ast.BoolOp) and isinstance(n.test.op, ast.And) and not n.orelse and len(n.test.values) >= 2:
            inner = ast.If(test=ast.BoolOp(op=ast.And(), values=n.test.values[1:]) if len(n.test.values) > 2 else n.test.values[1],
                           body=n.body, orelse=[])
            return ast.If(test=n.test.values[0], body=[inner], orelse=[])
        return n


def b_nested_ifs(root: Path) -> None:
    for rel in ("mathy_core/rules/constants_simplify.py", "mathy_core/rules/restate_subtraction.py",
                "mathy_core/rules/commutative_swap.py", "mathy_core/rules/balanced_move.py", "mathy_core/util.py",
                "mathy_core/rules/multiplicative_inverse.py"):
        _rewrite(root / rel, lambda t: _NestIfs().visit(t))


def b_helper_extraction(root: Path) -> None:
    p = root / "mathy_core/rules/multiplicative_inverse.py"
    s = p.read_text()
    s = s.replace("        is_division = isinstance(node, DivideExpression)\n        if not is_division:\n            return None\n",
                  "        if not self._is_division(node):\n            return None\n")
    s = s.replace("    def can_apply_to(self, node: MathExpression) -> bool:",
                  "    def _is_division(self, node: MathExpression) -> bool:\n        return isinstance(node, DivideExpression)\n\n"
                  "    def can_apply_to(self, node: MathExpression) -> bool:", 1)
    p.write_text(s)
    p = root / "mathy_core/rules/balanced_move.py"
    s = p.read_text()
    s = s.replace("        root = node.get_root()\n        if not isinstance(root, EqualExpression) or isinstance(",
                  "        root = self._root_of(node)\n        if not isinstance(root, EqualExpression) or isinstance(", 1)
    s = s.replace("    def can_apply_to(self, node: MathExpression) -> bool:",
                  "    def _root_of(self, node: MathExpression) -> MathExpression:\n        return node.get_root()\n\n"
                  "    def can_apply_to(self, node: MathExpression) -> bool:", 1)
    p.write_text(s)


def b_iterative_inorder(root: Path) -> None:
    """A correct loop-based visit_inorder (recursion only into left subtrees)."""
    p = root / "mathy_core/tree.py"
    tree = ast.parse(p.read_text())
    new_body = ast.parse('''
def visit_inorder(self, visit_fn, depth=0, data=None):
    current = self
    level = depth
    while current is not None:
        if current.left and current.left.visit_inorder(visit_fn, level + 1, data) == STOP:
            return STOP
        if visit_fn and visit_fn(current, level, data) == STOP:
            return STOP
        current = current.right
        level = level + 1
    return None
''').body[0]
    for n in ast.walk(tree):
        if isinstance(n, ast.ClassDef) and n.name == "BinaryTreeNode":
            for i, m in enumerate(n.body):
                if isinstance(m, ast.FunctionDef) and m.name == "visit_inorder":
                    n.body[i] = new_body
    ast.fix_missing_locations(tree)
    p.write_text(ast.unparse(tree) + "\n")


def b_list_copy(root: Path) -> None:
    p = root / "mathy_core/parser.py"
    s = p.read_text()
    assert "return self._tokens_cache[input_text][:]" in s
    s = s.replace("return self._tokens_cache[input_text][:]", "return list(self._tokens_cache[input_text])")
    s = s.replace("self._all_tokens = tokens[:]", "self._all_tokens = list(tokens)")
    p.write_text(s)


def b_type_self(root: Path) -> None:
    p = root / "mathy_core/tree.py"
    s = p.read_text()
    assert "result = self.__class__()" in s
    p.write_text(s.replace("result = self.__class__()", "result = type(self)()"))


def b_early_returns(root: Path) -> None:
    """identify_operators: elif chain -> table-free early returns for two arms; sgn: reorder tests."""
    p = root / "mathy_core/expressions.py"
    s = p.read_text()
    old = "        if value < 0:\n            return -1\n\n        if value > 0:\n            return 1\n\n        return 0\n"
    new = "        if value > 0:\n            return 1\n        if value < 0:\n            return -1\n        return 0\n"
    assert old in s
    p.write_text(s.replace(old, new))
    p = root / "mathy_core/expressions.py"
    s = p.read_text()
    old = "        if two == 0:\n            return float(\"nan\")\n        else:\n            return one / two\n"
    new = "        if two != 0:\n            return one / two\n        return float(\"nan\")\n"
    assert old in s
    p.write_text(s.replace(old, new))


def b_explicit_result_var(root: Path) -> None:
    """operate bodies through a temporary; Negate via multiplication; add annotations and comments."""
    p = root / "mathy_core/expressions.py"
    s = p.read_text()
    s = s.replace("        return one + two\n", "        total: NumberType = one + two  # sum of both operands\n        return total\n")
    s = s.replace("        return -value\n", "        return value * -1\n")
    p.write_text(s)


def b_operator_table(root: Path) -> None:
    """identify_operators driven by a dict instead of an elif chain."""
    p = root / "mathy_core/tokenizer.py"
    tree = ast.parse(p.read_text())
    new_fn = ast.parse('''
def identify_operators(self, context):
    """Identify and tokenize operators."""
    table = {"+": ("+", TOKEN_TYPES.Plus), "-": ("-", TOKEN_TYPES.Minus), "–": ("-", TOKEN_TYPES.Minus),
             "*": ("*", TOKEN_TYPES.Multiply), "/": ("/", TOKEN_TYPES.Divide), "^": ("^", TOKEN_TYPES.Exponent),
             "!": ("!", TOKEN_TYPES.Factorial), "(": ("(", TOKEN_TYPES.OpenParen), "[": ("(", TOKEN_TYPES.OpenParen),
             ")": (")", TOKEN_TYPES.CloseParen), "]": (")", TOKEN_TYPES.CloseParen), "=": ("=", TOKEN_TYPES.Equal)}
    ch = context.chunk[0]
    if ch in (" ", "\\t", "\\r", "\\n"):
        if not self.exclude_padding:
            context.tokens.append(Token(ch, TOKEN_TYPES.Pad))
    elif ch in table:
        entry = table[ch]
        context.tokens.append(Token(entry[0], entry[1]))
    else:
        raise ValueError(f'Invalid token "{ch}" in expression: {context.buffer}')
    context.index += 1
    return True
''').body[0]
    for n in ast.walk(tree):
        if isinstance(n, ast.ClassDef) and n.name == "Tokenizer":
            for i, m in enumerate(n.body):
                if isinstance(m, ast.FunctionDef) and m.name == "identify_operators":
                    n.body[i] = new_fn
    ast.fix_missing_locations(tree)
    p.write_text(ast.unparse(tree) + "\n")


def b_priority_table(root: Path) -> None:
    """get_priority as a loop over a (class, priority) table."""
    p = root / "mathy_core/expressions.py"
    tree = ast.parse(p.read_text())
    new_fn = ast.parse('''
def get_priority(self):
    table = [(PowerExpression, OOO_EXPONENT), (MultiplyExpression, OOO_MULTDIV), (DivideExpression, OOO_MULTDIV),
             (AddExpression, OOO_ADDSUB), (SubtractExpression, OOO_ADDSUB)]
    for cls, priority in table:
        if isinstance(self, cls):
            return priority
    return OOO_INVALID
''').body[0]
    for n in ast.walk(tree):
        if isinstance(n, ast.ClassDef) and n.name == "BinaryExpression":
            for i, m in enumerate(n.body):
                if isinstance(m, ast.FunctionDef) and m.name == "get_priority":
                    n.body[i] = new_fn
    ast.fix_missing_locations(tree)
    p.write_text(ast.unparse(tree) + "\n")


def b_parser_loops(root: Path) -> None:
    """parse_add with `while True ... break`; parse_unary's error test reordered."""
    p = root / "mathy_core/parser.py"
    s = p.read_text()
    old = "        exp = self.parse_mult()\n        while self.check(_IS_ADD):\n            opType = self.current_token.type\n"
    new = "        exp = self.parse_mult()\n        while True:\n            if not self.check(_IS_ADD):\n                break\n            opType = self.current_token.type\n"
    assert old in s
    s = s.replace(old, new)
    old2 = "        if not expected or exp is None:\n            assert self._all_tokens is not None\n            input_str = \"\".join([str(f.value) for f in self._all_tokens])\n            raise InvalidSyntax(\n                \"Expected a function/variable/parenthesis"
    assert old2 in s
    s = s.replace(old2, "        if exp is None or not expected:\n            assert self._all_tokens is not None\n            input_str = \"\".join([str(f.value) for f in self._all_tokens])\n            raise InvalidSyntax(\n                \"Expected a function/variable/parenthesis")
    p.write_text(s)


def b_rule_early_returns(root: Path) -> None:
    """CommutativeSwap.can_apply_to / AssociativeSwap.can_apply_to restructured with early returns and a local helper."""
    p = root / "mathy_core/rules/associative_swap.py"
    s = p.read_text()
    old = s[s.index("    def can_apply_to(self, node: MathExpression) -> bool:"):s.index("    def apply_to(self, node: MathExpression)")]
    new = '''    def can_apply_to(self, node: MathExpression) -> bool:
        parent = node.parent
        if parent is None:
            return False
        for kind in (AddExpression, MultiplyExpression):
            if isinstance(node, kind):
                return isinstance(parent, kind)
        return False

'''
    p.write_text(s.replace(old, new))
    p = root / "mathy_core/rules/distributive_multiply_across.py"
    s = p.read_text()
    old = s[s.index("    def can_apply_to(self, node: MathExpression) -> bool:"):s.index("    def apply_to(self, node: MathExpression)")]
    new = '''    def can_apply_to(self, node: MathExpression) -> bool:
        if not isinstance(node, MultiplyExpression):
            return False
        left_is_sum = isinstance(node.left, AddExpression)
        right_is_sum = isinstance(node.right, AddExpression)
        return bool((left_is_sum and node.right) or (right_is_sum and node.left))

'''
    p.write_text(s.replace(old, new))


def b_regex_scanner(root: Path) -> None:
    """The multi-character scanners rewritten with (correct) regular expressions: the refactor of seeded change C11-d with
    the number pattern repaired."""
    patch = (VERIF / "seeded" / "C11-d" / "patch.diff").read_text()
    subprocess.run(["patch", "-p1", "-s"], input=patch, text=True, cwd=root, check=True)
    p = root / "mathy_core/tokenizer.py"
    s = p.read_text()
    bad = 're.compile(r"[0-9]*\\.?[0-9]*")'
    assert bad in s, "C11-d patch changed"
    p.write_text(s.replace(bad, 're.compile(r"[0-9.]+")'))


def b_comprehension_queries(root: Path) -> None:
    """get_children as a comprehension, is_leaf through it, factor()'s trial range through math.isqrt."""
    p = root / "mathy_core/tree.py"
    s = p.read_text()
    old = s[s.index("        result: List[Any] = []\n        if self.left:\n            result.append(self.left)"):s.index("        return result\n", s.index("        result: List[Any] = []\n        if self.left:")) + len("        return result\n")]
    s = s.replace(old, "        return [child for child in (self.left, self.right) if child is not None]\n")
    p.write_text(s)
    p = root / "mathy_core/util.py"
    s = p.read_text()
    old = "    sqrt = int(sqrt + 1)\n"
    assert old in s
    s = s.replace(old, "    sqrt = math.isqrt(int(value)) + 2 if value == int(value) else int(sqrt + 1)\n")
    p.write_text(s)


def b_generic_clone(root: Path) -> None:
    """A (correct) generic clone: the base class copies every instance attribute except the links, lists are copied; the
    payload overrides of the subclasses are removed."""
    p = root / "mathy_core/tree.py"
    s = p.read_text()
    old = "        result = self.__class__()  # type:ignore\n        result.id = self.id\n"
    assert old in s
    s = s.replace(old, "        result = self.__class__()  # type:ignore\n"
                       "        for name, value in vars(self).items():\n"
                       "            if name in (\"left\", \"right\", \"parent\", \"child\", \"cloned_node\", \"cloned_target\"):\n"
                       "                continue\n"
                       "            setattr(result, name, list(value) if isinstance(value, list) else value)\n")
    p.write_text(s)
    p = root / "mathy_core/expressions.py"
    tree = ast.parse(p.read_text())
    for n in ast.walk(tree):
        if isinstance(n, ast.ClassDef) and n.name in ("ConstantExpression", "VariableExpression", "UnaryExpression"):
            n.body = [m for m in n.body if not (isinstance(m, ast.FunctionDef) and m.name == "clone")]
    ast.fix_missing_locations(tree)
    p.write_text(ast.unparse(tree) + "\n")


def b_tokenizer_stat(root: Path) -> None:
    """The tokenizer remembers the length of the last buffer (a statistic nothing reads); the parser's token cache is
    filled through a local variable and dict.get."""
    p = root / "mathy_core/tokenizer.py"
    s = p.read_text()
    old = "        context = TokenContext(buffer=buffer, chunk=str(buffer))\n"
    assert old in s
    p.write_text(s.replace(old, old + "        self.last_length = len(buffer)\n"))
    p = root / "mathy_core/parser.py"
    s = p.read_text()
    old = ("        if input_text not in self._tokens_cache:\n"
           "            self._tokens_cache[input_text] = self.tokenizer.tokenize(input_text)\n"
           "        return self._tokens_cache[input_text][:]\n")
    assert old in s
    p.write_text(s.replace(old, "        tokens = self._tokens_cache.get(input_text)\n"
                                "        if tokens is None:\n"
                                "            tokens = self.tokenizer.tokenize(input_text)\n"
                                "            self._tokens_cache[input_text] = tokens\n"
                                "        return list(tokens)\n"))


def b_new_link_primitive(root: Path) -> None:
    """A new (correct) link primitive in tree.py, replace_child(), used by ExpressionChangeRule.done()."""
    p = root / "mathy_core/tree.py"
    s = p.read_text()
    old = "    def get_children(self: NodeType) -> List[NodeType]:"
    assert old in s
    s = s.replace(old, "    def replace_child(self: NodeType, side: str, child: Optional[NodeType]) -> Optional[NodeType]:\n"
                       "        \"\"\"Put `child` on the given side and make it point back here.\"\"\"\n"
                       "        if side == LEFT:\n"
                       "            self.left = child\n"
                       "        elif side == RIGHT:\n"
                       "            self.right = child\n"
                       "        else:\n"
                       "            raise ValueError(\"side must be left or right\")\n"
                       "        if child is not None:\n"
                       "            child.parent = self\n"
                       "        return child\n\n" + old)
    p.write_text(s)
    p = root / "mathy_core/rule.py"
    s = p.read_text()
    old = "            self._save_parent.set_side(node, self._save_side)\n"
    assert old in s
    p.write_text(s.replace(old, "            self._save_parent.replace_child(self._save_side, node)\n"))


def b_wave_h_benign_halves(root: Path) -> None:
    """The behaviour-preserving halves of four seeded changes of wave h: rotate() asks get_side() up front (no override in
    UnaryExpression), get_rand_vars() keeps the exclusions in a set and hoists its iteration bound (no single-draw fast
    path), get_terms() as an explicit stack walk that flattens every nested group, BalancedMove's chained-equation guard
    written with any()."""
    p = root / "mathy_core/tree.py"
    s = p.read_text()
    old = ("        grand_parent = parent.parent\n"
           "        if node == parent.left:\n")
    assert old in s
    s = s.replace(old, "        grand_parent = parent.parent\n"
                       "        node_side = parent.get_side(node)\n"
                       "        parent_side = grand_parent.get_side(parent) if grand_parent else None\n"
                       "        if node_side == LEFT:\n")
    old = "        if parent == grand_parent.left:\n            grand_parent.left = node\n"
    assert old in s
    s = s.replace(old, "        if parent_side == LEFT:\n            grand_parent.left = node\n")
    p.write_text(s)
    p = root / "mathy_core/problems.py"
    s = p.read_text()
    old = ("    rand_vars: Set[str] = set()\n"
           "    iters = 0\n"
           "    while len(rand_vars) < num_vars:\n"
           "        _rand = rand_var(common_variables)\n"
           "        if _rand not in exclude_vars:\n"
           "            rand_vars.add(_rand)\n"
           "        iters += 1\n"
           "        if iters > num_vars * 10:\n")
    assert old in s
    s = s.replace(old, "    excluded: Set[str] = set(exclude_vars)\n"
                       "    max_iters = num_vars * 10\n"
                       "    rand_vars: Set[str] = set()\n"
                       "    iters = 0\n"
                       "    while len(rand_vars) < num_vars:\n"
                       "        _rand = rand_var(common_variables)\n"
                       "        if _rand not in excluded:\n"
                       "            rand_vars.add(_rand)\n"
                       "        iters += 1\n"
                       "        if iters > max_iters:\n")
    p.write_text(s)
    p = root / "mathy_core/util.py"
    s = p.read_text()
    a = s.index("    def visit_fn(node: MathExpression, depth: int, data: Any) -> Optional[VisitStop]:\n        nonlocal results\n        if not is_add_or_sub(node):")
    b = s.index("    root.visit_inorder(visit_fn)\n    return [expression] if len(results) == 0 else results", a)
    s = s[:a] + ("    stack: List[MathExpression] = [root]\n"
                 "    while len(stack) > 0:\n"
                 "        node = stack.pop()\n"
                 "        if is_add_or_sub(node):\n"
                 "            if node.right is not None:\n"
                 "                stack.append(node.right)\n"
                 "            if node.left is not None:\n"
                 "                stack.append(node.left)\n"
                 "        elif node is not root:\n"
                 "            results.append(node)\n") + s[b + len("    root.visit_inorder(visit_fn)\n"):]
    p.write_text(s)
    p = root / "mathy_core/rules/balanced_move.py"
    s = p.read_text()
    old = ("        if isinstance(root.left, EqualExpression) or isinstance(\n"
           "            root.right, EqualExpression\n"
           "        ):\n")
    assert old in s
    p.write_text(s.replace(old, "        if any(isinstance(side, EqualExpression) for side in (root.left, root.right)):\n"))


BENIGN: Dict[str, Tuple[Callable[[Path], None], List[str]]] = {
    "wave-h-benign-halves": (b_wave_h_benign_halves, ["C15", "C17", "C16", "C06", "C02", "C07"]),
    "tokenizer-stat": (b_tokenizer_stat, ["C12", "C11", "C10", "C03"]),
    "new-link-primitive": (b_new_link_primitive, ["C07", "C01", "C06", "C09", "C13"]),
    "comprehension-queries": (b_comprehension_queries, ["C14", "C16", "C01", "C07", "C13"]),
    "generic-clone": (b_generic_clone, ["C13", "C07", "C06", "C09"]),
    "regex-scanner": (b_regex_scanner, ["C11", "C12", "C10"]),
    "operator-table": (b_operator_table, ["C11", "C12"]),
    "priority-table": (b_priority_table, ["C04", "C09"]),
    "parser-loops": (b_parser_loops, ["C03", "C10", "C12"]),
    "rule-early-returns": (b_rule_early_returns, ["C01", "C06", "C07", "C08", "C15"]),
    "unparse-all": (b_unparse_all, ALL),
    "rename-locals": (b_rename_locals, ["C01", "C06", "C07", "C15", "C16", "C08"]),
    "nested-ifs": (b_nested_ifs, ["C01", "C02", "C06", "C07", "C08", "C16"]),
    "helper-extraction": (b_helper_extraction, ["C01", "C02", "C06", "C07", "C08"]),
    "iterative-inorder": (b_iterative_inorder, ["C14", "C06"]),
    "list-copy": (b_list_copy, ["C03", "C10", "C12"]),
    "type-self": (b_type_self, ["C13", "C01", "C07"]),
    "reordered-tests": (b_early_returns, ["C05", "C06"]),
    "temporaries": (b_explicit_result_var, ["C05", "C01"]),
}


# --------------------------------------------------------------------------- running
def scratch_copy() -> Path:
    d = Path(tempfile.mkdtemp(prefix="mathy-selftest-"))
    shutil.copytree(REPO / "mathy_core", d / "mathy_core", ignore=shutil.ignore_patterns("__pycache__"))
    return d


def run_checks(root: Path, checks: List[str], jobs: int) -> Dict[str, Tuple[int, str]]:
    out: Dict[str, Tuple[int, str]] = {}
    env = dict(os.environ, VERIF_REPO=str(root), VERIF_OUT=str(root / "_out"), VERIF_JOBS=str(jobs),
               VERIF_CACHE=str(root / "_cache"))   # removed with the scratch copy
    for c in checks:
        r = subprocess.run([str(VERIF / "check"), c], env=env, capture_output=True, text=True, timeout=1800)
        lines = [l for l in r.stdout.splitlines() if l.startswith(("VIOLATION", "ANALYSIS-ERROR", "  rule=", "["))]
        out[c] = (r.returncode, "\n".join(lines[:6]))
    return out


def run_variant(kind: str, vid: str, spec, jobs: int) -> dict:
    root = scratch_copy()
    t0 = time.time()
    try:
        if kind == "benign":
            fn, checks = spec
            fn(root)
            expect_code = 0
        else:
            patch, checks = spec
            r = subprocess.run(["git", "apply", "--unsafe-paths", f"--directory={root}", str(patch)], cwd="/",
                               capture_output=True, text=True)
            if r.returncode != 0:
                r = subprocess.run(["patch", "-p1", "-d", str(root), "-i", str(patch)], capture_output=True, text=True)
                if r.returncode != 0:
                    return {"id": vid, "kind": kind, "ok": False, "note": "patch does not apply: " + r.stderr[:200]}
            expect_code = 1
        # the variant must still be importable Python
        for p in (root / "mathy_core").rglob("*.py"):
            ast.parse(p.read_text())
        res = run_checks(root, checks, jobs)
        if kind == "benign":
            ok = all(code == 0 for code, _ in res.values())
        else:
            ok = any(code == 1 for code, _ in res.values())
        return {"id": vid, "kind": kind, "ok": ok, "results": {c: {"exit": code, "out": o} for c, (code, o) in res.items()},
                "wall_s": round(time.time() - t0, 1)}
    except Exception as e:  # pragma: no cover
        return {"id": vid, "kind": kind, "ok": False, "note": f"{type(e).__name__}: {e}"}
    finally:
        shutil.rmtree(root, ignore_errors=True)


def main(argv: List[str]) -> int:
    only = None
    jobs = 8
    which = "all"
    i = 0
    while i < len(argv):
        if argv[i] == "--only":
            only = set(argv[i + 1].split(","))
            i += 2
        elif argv[i] == "--jobs":
            jobs = int(argv[i + 1])
            i += 2
        elif argv[i] in ("--benign", "--seeds"):
            which = argv[i][2:]
            i += 1
        else:
            i += 1
    variants = []
    if which in ("all", "benign"):
        for vid, spec in BENIGN.items():
            variants.append(("benign", vid, spec))
    if which in ("all", "seeds"):
        for d in sorted((VERIF / "seeded").iterdir()):
            meta = d / "meta.json"
            if not meta.exists():
                continue
            m = json.loads(meta.read_text())
            exp = m.get("expect")
            if not exp or exp.get("status") != "violation":
                continue
            variants.append(("seed", d.name, (d / "patch.diff", exp["checks"])))
    if only:
        variants = [v for v in variants if v[1] in only]
    inner = max(1, 16 // max(1, min(jobs, len(variants))))
    with ThreadPoolExecutor(max_workers=jobs) as ex:
        results = list(ex.map(lambda v: run_variant(v[0], v[1], v[2], inner), variants))
    bad = 0
    for r in results:
        status = "ok  " if r["ok"] else "FAIL"
        if not r["ok"]:
            bad += 1
        detail = r.get("note", "")
        if "results" in r:
            detail = " ".join(f"{c}={v['exit']}" for c, v in r["results"].items())
        print(f"{status} {r['kind']:6s} {r['id']:22s} {detail} ({r.get('wall_s', '?')}s)")
        if not r["ok"] and "results" in r:
            for c, v in r["results"].items():
                if (r["kind"] == "benign" and v["exit"] != 0) or r["kind"] == "seed":
                    print("      " + c + ": " + v["out"].replace("\n", "\n      ")[:700])
    out = VERIF / "selftest" / "last_run.json"
    out.write_text(json.dumps(results, indent=1))
    print(f"selftest: {len(results) - bad}/{len(results)} variants behave as expected")
    return 0 if bad == 0 else 1
